/-
Spec predicates ("judges"): executable, decidable instances of the property statements,
written from the statements and the cited standards — deliberately NOT from the model —
and evaluated on the *implementation's* responses.
-/
import HdwModel.Driver.Util
import HdwModel.Spec.Rlp
import HdwModel.Spec.Bip39
import HdwModel.Model.Wordlist

namespace Hdw.Driver.Judge
open Hdw Hdw.Driver

inductive Verdict where
  | holds
  | fails (why : String)
  | skip

def Verdict.render : Verdict → String
  | .holds => "holds"
  | .fails w => "fails " ++ w
  | .skip => "skip"

def expect (c : Bool) (why : String) : Verdict := if c then .holds else .fails why

/-! ### C10 -/

def judgeMsgHash (m : Bytes) (resp : String) : Verdict :=
  let pre : Bytes := [0x19] ++ "Ethereum Signed Message:\n".toUTF8.toList ++
    (toString m.length).toUTF8.toList ++ m
  expect (resp == "ok " ++ hx (Prim.keccak256 pre)) "digest differs from keccak256(0x19 ‖ prefix ‖ len ‖ m)"

/-! ### C01 / C12 -/

/-- executable form of `Spec.Bip39.Valid`: the unique candidate entropy is the top ENT bits -/
def bip39Entropy? (words : List Str) : Option Bytes :=
  let n := words.length
  if n == 12 || n == 15 || n == 18 || n == 21 || n == 24 then
    match words.mapM (fun w => Wordlist.table.idxOf? w) with
    | none => none
    | some idxs =>
      let v := idxs.foldl (fun a i => a * 2048 + i) 0
      let ent := beFixed (n * 4 / 3) (v / 2 ^ (n / 3))
      if Spec.Bip39.indices Prim.sha256 ent == idxs then some ent else none
  else none

def judgeMnParse (text : Str) (resp : String) : Verdict :=
  let words := (String.ofList text).splitToList (fun c => isWhitespace c) |>.filter (· ≠ "")
  match bip39Entropy? (words.map String.toList) with
  | some _ =>
    let printed := hx (" ".intercalate words).toUTF8.toList
    expect (resp == s!"ok {printed} {words.length} {printed}")
      "valid BIP-39 sentence must be accepted, print as the words joined by single spaces, and report its word count"
  | none => expect (resp == "err") "not a valid BIP-39 sentence (count, unknown word or checksum): must be an ordinary error"

/-- generation: exactly one request of 4L/3 bytes; the phrase encodes exactly the injected bytes -/
def judgeMnRandom (n : Nat) (inject : Option Bytes) (resp : String) : Verdict :=
  let supported := n == 12 || n == 15 || n == 18 || n == 21 || n == 24
  if !supported then expect (resp == "err") "unsupported length must be refused"
  else
    let need := n * 4 / 3
    match inject with
    | none => expect (resp == "err") "entropy failure must be an error"
    | some b =>
      if b.length < need then expect (resp == "err") "entropy failure must be an error"
      else
        match resp.splitOn " " with
        | ["ok", ph, len, log] =>
          match unhex ph with
          | some phb =>
            let words := ((String.fromUTF8? ⟨phb.toArray⟩).getD "").splitOn " "
            match bip39Entropy? (words.map String.toList) with
            | some ent =>
              expect (ent == b.take need && len == toString n && log == toString need && words.length == n)
                "phrase must be a valid L-word sentence whose entropy is exactly the bytes of one request of 4L/3 bytes"
            | none => .fails "generated phrase is not a valid BIP-39 sentence"
          | none => .fails "unparsable"
        | _ => .fails "generation failed although the entropy source succeeded"

/-! ### C14 -/

/-- canonical decimal numeral: digits only, no leading zero unless "0" -/
def canonicalNat? (s : String) : Option Nat :=
  match s.toNat? with
  | some v => if toString v == s then some v else none
  | none => none

inductive CompClass where
  | good (v : Nat) (hard : Bool)
  | free (v : Nat) (hard : Bool)   -- numeric but not canonically spelt (`+7`, `007`): statement is silent
  | bad

def classifyComp (c : String) : CompClass :=
  let hard := c.endsWith "'"
  let body := if hard then (c.dropEnd 1).toString else c
  match canonicalNat? body with
  | some v => if v < 2 ^ 31 then .good v hard else .bad
  | none =>
    let digits := if body.startsWith "+" then (body.drop 1).toString else body
    if digits.length > 0 && digits.all Char.isDigit then
      match digits.toNat? with
      | some v => if v < 2 ^ 31 then .free v hard else .bad
      | none => .bad
    else .bad

def compStr (v : Nat) (hard : Bool) : String := (if hard then "h" else "n") ++ toString v
def compText (v : Nat) (hard : Bool) : String := toString v ++ (if hard then "'" else "")

def judgePathParse (text : String) (resp : String) : Verdict :=
  if !text.startsWith "m/" then expect (resp == "err") "missing root must be an error"
  else
    let comps := ((text.drop 2).toString.splitOn "/").map classifyComp
    if comps.any (fun c => match c with | .bad => true | _ => false) then
      expect (resp == "err") "non-standard component (empty, non-numeric, signed, or index ≥ 2^31) must be an error"
    else
      let vals := comps.filterMap fun c => match c with
        | .good v h => some (v, h) | .free v h => some (v, h) | .bad => none
      let want := "ok " ++ hx ("m/" ++ "/".intercalate (vals.map fun (v, h) => compText v h)).toUTF8.toList ++ " " ++
        ",".intercalate (vals.map fun (v, h) => compStr v h)
      if comps.all (fun c => match c with | .good .. => true | _ => false) then
        expect (resp == want) "canonical path must be accepted, with these components, and print back identically"
      else
        expect (resp == want || resp == "err") "non-canonical numeric spelling: either rejected or read as the same indices"

def judgeForIndex (i : Nat) (resp : String) : Verdict :=
  if i < 2 ^ 31 then
    expect (resp == "ok " ++ hx ("m/44'/60'/0'/0/" ++ toString i).toUTF8.toList) "default path must be m/44'/60'/0'/0/i"
  else expect (resp == "err") "account index ≥ 2^31 must be an ordinary error"

/-! ### C15 (text form) -/

def secpN : Nat := 0xFFFFFFFFFFFFFFFFFFFFFFFFFFFFFFFEBAAEDCE6AF48A03BBFD25E8CD0364141

def lowerHexFixed (n width : Nat) : String :=
  let ds := (Nat.toDigits 16 n)
  String.ofList (List.replicate (width - ds.length) '0' ++ ds)

def judgeSigPrint (r s par : Nat) (resp : String) : Verdict :=
  let want := "0x" ++ lowerHexFixed r 64 ++ lowerHexFixed s 64 ++ lowerHexFixed (27 + par) 2
  expect (resp == "ok " ++ hx want.toUTF8.toList) "text must be 0x ‖ r(64 hex) ‖ s(64 hex) ‖ v(2 hex), v = 27 + parity"

def hexNat? (s : String) : Option Nat :=
  s.toList.foldlM (fun acc c =>
    if c.isDigit then some (acc * 16 + (c.toNat - 48))
    else if 'a' ≤ c && c ≤ 'f' then some (acc * 16 + (c.toNat - 87))
    else if 'A' ≤ c && c ≤ 'F' then some (acc * 16 + (c.toNat - 55))
    else none) 0

def judgeSigParse (text : String) (resp : String) : Verdict :=
  let body := if text.startsWith "0x" then (text.drop 2).toString else text
  let denotes : Option (Nat × Nat × Nat) :=
    if body.length == 130 then
      match hexNat? (body.take 64).toString, hexNat? ((body.drop 64).take 64).toString, hexNat? (body.drop 128).toString with
      | some r, some s, some v =>
        if (v == 27 || v == 28) && 0 < r && r < secpN && 0 < s && s < secpN then some (r, s, v - 27) else none
      | _, _, _ => none
    else none
  match denotes with
  | some (r, s, p) =>
    expect (resp == s!"ok {lowerHexFixed r 64} {lowerHexFixed s 64} {p}") "text denoting a signature must parse to exactly that signature"
  | none => expect (resp == "err") "text that does not denote a signature must be an ordinary error"

/-! ### C19 -/

def judgeHexEncode (data : Bytes) (resp : String) : Verdict :=
  let want := "0x" ++ String.join (data.map fun b => lowerHexFixed b.toNat 2) ++ "\n"
  expect (resp == "ok " ++ hx want.toUTF8.toList) "output must be 0x + two lower-case digits per byte + newline"

def judgeHexDecode (data : Bytes) (resp : String) : Verdict :=
  match String.fromUTF8? ⟨data.toArray⟩ with
  | none => expect (resp == "err") "non-UTF-8 input must be an error with no output"
  | some text =>
    let t := String.ofList (text.toList.filter fun c => !isWhitespace c)
    let digits := if t.startsWith "0x" then (t.drop 2).toString else t
    let ok := digits.length % 2 == 0 && digits.all fun c =>
      c.isDigit || ('a' ≤ c && c ≤ 'f') || ('A' ≤ c && c ≤ 'F')
    if ok then
      let bytes := (List.range (digits.length / 2)).map fun i =>
        UInt8.ofNat ((hexNat? ((digits.drop (2 * i)).take 2).toString).getD 0)
      expect (resp == "ok " ++ hx bytes) "layout variants must decode to the bytes the digits spell"
    else expect (resp == "err") "odd digit count or non-hex character must be an error with no output"

/-! ### C07 -/

def judgeRlpItem (item : Spec.Rlp.Item) (same : Spec.Rlp.Item → Bool) (resp : String) : Verdict :=
  match resp.splitOn " " with
  | ["ok", out] =>
    match unhex out with
    | some b =>
      match Spec.Rlp.decodeAll b with
      | some it => let _ := item; expect (same it) "strict decoder returns a different value"
      | none => .fails "strict decoder rejects the output (non-canonical or trailing bytes)"
    | none => .fails "unparsable response"
  | _ => .fails "encoder did not return bytes"

def isStr (b : Bytes) : Spec.Rlp.Item → Bool
  | .str b' => b == b'
  | _ => false

end Hdw.Driver.Judge
