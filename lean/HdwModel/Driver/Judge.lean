/-
Spec predicates ("judges"): executable, decidable instances of the property statements,
written from the statements and the cited standards — deliberately NOT from the model —
and evaluated on the *implementation's* responses.
-/
import HdwModel.Driver.Util
import HdwModel.Spec.Rlp
import HdwModel.Spec.Bip39
import HdwModel.Spec.Bip39English
import HdwModel.Model.Wordlist
import HdwModel.Spec.Bip32
import HdwModel.Spec.Ecdsa
import HdwModel.Spec.Rfc6979
import HdwModel.Model.Nfkd

namespace Hdw.Driver.Judge
open Hdw Hdw.Driver

inductive Verdict where
  | holds
  | fails (why : String)
  | skip

def Verdict.render : Verdict → String
  | .holds => "holds"
  | .fails w => "fails " ++ w
  | .skip => "skip"

def expect (c : Bool) (why : String) : Verdict := if c then .holds else .fails why

/-- canonical decimal numeral: digits only, no leading zero unless "0" -/
def canonicalNat? (s : String) : Option Nat :=
  match s.toNat? with
  | some v => if toString v == s then some v else none
  | none => none

def lowerHexFixed (n width : Nat) : String :=
  let ds := (Nat.toDigits 16 n)
  String.ofList (List.replicate (width - ds.length) '0' ++ ds)

/-! ### C10 -/

def judgeMsgHash (m : Bytes) (resp : String) : Verdict :=
  let pre : Bytes := [0x19] ++ "Ethereum Signed Message:\n".toUTF8.toList ++
    (toString m.length).toUTF8.toList ++ m
  expect (resp == "ok " ++ hx (Prim.keccak256 pre)) "digest differs from keccak256(0x19 ‖ prefix ‖ len ‖ m)"

/-! ### C01 / C12 -/

/-- the REFERENCE BIP-39 English list (not the repository's regenerated one) -/
def referenceTable : List Str := Spec.Bip39.englishBytes.map fun w => w.map fun b => Char.ofNat b.toNat

/-- executable form of `Spec.Bip39.Valid`: the unique candidate entropy is the top ENT bits -/
def bip39Entropy? (words : List Str) : Option Bytes :=
  let n := words.length
  if n == 12 || n == 15 || n == 18 || n == 21 || n == 24 then
    match words.mapM (fun w => referenceTable.idxOf? w) with
    | none => none
    | some idxs =>
      let v := idxs.foldl (fun a i => a * 2048 + i) 0
      let ent := beFixed (n * 4 / 3) (v / 2 ^ (n / 3))
      if Spec.Bip39.indices Prim.sha256 ent == idxs then some ent else none
  else none

def judgeMnParse (text : Str) (resp : String) : Verdict :=
  let words := (String.ofList text).splitToList (fun c => isWhitespace c) |>.filter (· ≠ "")
  match bip39Entropy? (words.map String.toList) with
  | some _ =>
    let printed := hx (" ".intercalate words).toUTF8.toList
    expect (resp == s!"ok {printed} {words.length} {printed}")
      "valid BIP-39 sentence must be accepted, print as the words joined by single spaces, and report its word count"
  | none => expect (resp == "err") "not a valid BIP-39 sentence (count, unknown word or checksum): must be an ordinary error"

/-- generation: exactly one request of 4L/3 bytes; the phrase encodes exactly the injected bytes -/
def judgeMnRandom (n : Nat) (inject : Option Bytes) (resp : String) : Verdict :=
  let supported := n == 12 || n == 15 || n == 18 || n == 21 || n == 24
  if !supported then expect (resp == "err") "unsupported length must be refused"
  else
    let need := n * 4 / 3
    match inject with
    | none => expect (resp == "err") "entropy failure must be an error"
    | some b =>
      if b.length < need then expect (resp == "err") "entropy failure must be an error"
      else
        match resp.splitOn " " with
        | ["ok", ph, len, log] =>
          match unhex ph with
          | some phb =>
            let words := ((String.fromUTF8? ⟨phb.toArray⟩).getD "").splitOn " "
            match bip39Entropy? (words.map String.toList) with
            | some ent =>
              expect (ent == b.take need && len == toString n && log == toString need && words.length == n)
                "phrase must be a valid L-word sentence whose entropy is exactly the bytes of one request of 4L/3 bytes"
            | none => .fails "generated phrase is not a valid BIP-39 sentence"
          | none => .fails "unparsable"
        | _ => .fails "generation failed although the entropy source succeeded"

/-! ### C02 -/

/-- BIP-39 "From mnemonic to seed": PBKDF2-HMAC-SHA512, 2048 rounds, password = sentence
(NFKD; ASCII here), salt = "mnemonic" ‖ NFKD(passphrase), 64 bytes -/
def judgeSeed (T : NfkdTable) (phrase pw : Str) (resp : String) : Verdict :=
  let words := (String.ofList phrase).splitToList (fun c => isWhitespace c) |>.filter (· ≠ "")
  match bip39Entropy? (words.map String.toList) with
  | none => expect (resp == "err") "invalid mnemonic must be refused"
  | some _ =>
    let sentence := (" ".intercalate words).toUTF8.toList
    let salt := "mnemonic".toUTF8.toList ++ (String.ofList (T.nfkd pw)).toUTF8.toList
    let seed := Prim.pbkdf2 (Prim.hmac Prim.sha512 128) 64 sentence salt 2048 64
    expect (resp == "ok " ++ hx seed) "seed differs from PBKDF2-HMAC-SHA512(sentence, \"mnemonic\"‖NFKD(pass), 2048, 64)"

/-! ### C03 -/

def secpCurve : Curve Prim.Secp.Pt := Prim.realCurve

/-- child numbers of a canonical path text (`none` if the text is not a plain canonical path) -/
def childNumbers? (text : String) : Option (List Nat) :=
  if !text.startsWith "m/" then none else
  ((text.drop 2).toString.splitOn "/").mapM fun c =>
    let hard := c.endsWith "'"
    let body := if hard then (c.dropEnd 1).toString else c
    match canonicalNat? body with
    | some v => if v < 2 ^ 31 then some (if hard then v + 2 ^ 31 else v) else none
    | none => none

def judgeDerive (seed : Bytes) (path : String) (resp : String) : Verdict :=
  match childNumbers? path with
  | none => .skip
  | some cns =>
    let serP := fun k => secpCurve.compressed (secpCurve.mulG k)
    match Spec.Bip32.derive (Prim.hmac Prim.sha512 128) serP Prim.Secp.n seed cns with
    | some k => expect (resp == "ok " ++ hx (beFixed 32 k)) "derived key differs from BIP-32 CKDpriv along the path"
    | none => expect (resp == "err") "BIP-32 declares this derivation invalid: must be an error"

/-! ### C04 -/

def eip55 (addr : Bytes) : String :=
  let lower := String.join (addr.map fun b => lowerHexFixed b.toNat 2)
  let digest := Prim.keccak256 lower.toUTF8.toList
  let cs := lower.toList.zipIdx.map fun (c, i) =>
    let byte := (digest.getD (i / 2) 0).toNat
    let nib := if i % 2 == 0 then byte / 16 else byte % 16
    if nib ≥ 8 then c.toUpper else c
  "0x" ++ String.ofList cs

def judgeAcctNew (b : Bytes) (resp : String) : Verdict :=
  let v := beVal b
  let inRange := 0 < v && v < Prim.Secp.n
  if b.length == 32 then
    if inRange then
      match Prim.Secp.mulG v with
      | some (x, y) =>
        let pub := [0x04] ++ beFixed 32 x ++ beFixed 32 y
        let addr := (Prim.keccak256 (pub.drop 1)).drop 12
        expect (resp == s!"ok {hx (beFixed 32 v)} {hx pub} {hx (eip55 addr).toUTF8.toList}")
          "secret / uncompressed public key / EIP-55 address differ from secret·G and Keccak-256"
      | none => .fails "secret·G is the point at infinity?"
    else expect (resp == "err") "32-byte secret that is zero or not below n must be rejected"
  else
    -- other lengths: rejected, or taken as the same big-endian integer
    if resp == "err" then .holds
    else if inRange then
      match Prim.Secp.mulG v with
      | some (x, y) =>
        let pub := [0x04] ++ beFixed 32 x ++ beFixed 32 y
        expect (resp.startsWith s!"ok {hx (beFixed 32 v)} {hx pub} ") "other lengths must be rejected or read as the same integer"
      | none => .fails "infinity"
    else .fails "other lengths must be rejected or read as the same integer (in range)"

/-! ### C05 -/

def judgeSign (key digest : Bytes) (resp : String) : Verdict :=
  let d := beVal key
  if !(key.length == 32 && 0 < d && d < Prim.Secp.n && digest.length == 32) then .skip else
  match resp.splitOn " " with
  | ["ok", r, s, par] =>
    match unhex r, unhex s, par.toNat? with
    | some r, some s, some par =>
      let r := beVal r; let s := beVal s; let z := beVal digest
      let n := Prim.Secp.n
      let Q := Prim.Secp.mulG d
      if !(1 ≤ r && r < n && 1 ≤ s && s ≤ n / 2) then .fails "r, s out of range (1 ≤ r < n, 1 ≤ s ≤ n/2)"
      else if !(Spec.Ecdsa.verify secpCurve Q z r s) then .fails "ECDSA verification fails"
      else if Spec.Ecdsa.recover secpCurve z r s (par == 1) != some Q then .fails "recovery does not return the signer's key"
      else if z < n then
        -- RFC 6979 §3.2 (HMAC-SHA256, no additional data), then the textbook ECDSA equations and low-s normalisation
        match Spec.Rfc6979.nonce (Prim.hmac Prim.sha256 64) n d digest 64 with
        | some k =>
          match Prim.Secp.mulG k with
          | some (x, _) =>
            let r' := x % n
            let rec pw (b e m acc : Nat) (fuel : Nat) : Nat := match fuel with
              | 0 => acc
              | f + 1 => if e == 0 then acc else pw (b * b % m) (e / 2) m (if e % 2 == 1 then acc * b % m else acc) f
            let kinv := pw (k % n) (n - 2) n 1 260
            let s0 := (kinv * ((z + r' * d) % n)) % n
            let s' := if s0 > n / 2 then n - s0 else s0
            expect (r == r' && s == s') "for a digest below n the signature must be the RFC 6979 deterministic one (nonce from HMAC-SHA256 of key and digest, no additional data), low-s normalised"
          | none => .skip
        | none => .skip
      else .holds
    | _, _, _ => .fails "unparsable"
  | ["ok", why] => .fails ("the signature is not a function of (key, digest) alone: " ++ why)
  | _ => .fails "signing a valid key/digest must succeed"

def eip191 (m : Bytes) : Bytes :=
  Prim.keccak256 ([0x19] ++ "Ethereum Signed Message:\n".toUTF8.toList ++ (toString m.length).toUTF8.toList ++ m)

/-- a command that prints a digest: `0x` + 64 lower-case hex digits + newline -/
def judgeCliDigest (digest : Bytes) (resp : String) : Verdict :=
  let want := "0x" ++ String.join (digest.map fun b => lowerHexFixed b.toNat 2) ++ "\n"
  expect (resp == "ok " ++ hx want.toUTF8.toList) "printed digest differs from the Keccak-256 the statement defines for this input"

/-! ### C14 -/


inductive CompClass where
  | good (v : Nat) (hard : Bool)
  | free (v : Nat) (hard : Bool)   -- numeric but not canonically spelt (`+7`, `007`): statement is silent
  | bad

def classifyComp (c : String) : CompClass :=
  let hard := c.endsWith "'"
  let body := if hard then (c.dropEnd 1).toString else c
  match canonicalNat? body with
  | some v => if v < 2 ^ 31 then .good v hard else .bad
  | none =>
    let digits := if body.startsWith "+" then (body.drop 1).toString else body
    if digits.length > 0 && digits.all Char.isDigit then
      match digits.toNat? with
      | some v => if v < 2 ^ 31 then .free v hard else .bad
      | none => .bad
    else .bad

def compStr (v : Nat) (hard : Bool) : String := (if hard then "h" else "n") ++ toString v
def compText (v : Nat) (hard : Bool) : String := toString v ++ (if hard then "'" else "")

def judgePathParse (text : String) (resp : String) : Verdict :=
  if !text.startsWith "m/" then expect (resp == "err") "missing root must be an error"
  else
    let comps := ((text.drop 2).toString.splitOn "/").map classifyComp
    if comps.any (fun c => match c with | .bad => true | _ => false) then
      expect (resp == "err") "non-standard component (empty, non-numeric, signed, or index ≥ 2^31) must be an error"
    else
      let vals := comps.filterMap fun c => match c with
        | .good v h => some (v, h) | .free v h => some (v, h) | .bad => none
      let want := "ok " ++ hx ("m/" ++ "/".intercalate (vals.map fun (v, h) => compText v h)).toUTF8.toList ++ " " ++
        ",".intercalate (vals.map fun (v, h) => compStr v h)
      if comps.all (fun c => match c with | .good .. => true | _ => false) then
        expect (resp == want) "canonical path must be accepted, with these components, and print back identically"
      else
        expect (resp == want || resp == "err") "non-canonical numeric spelling: either rejected or read as the same indices"

def judgeForIndex (i : Nat) (resp : String) : Verdict :=
  if i < 2 ^ 31 then
    expect (resp == "ok " ++ hx ("m/44'/60'/0'/0/" ++ toString i).toUTF8.toList) "default path must be m/44'/60'/0'/0/i"
  else expect (resp == "err") "account index ≥ 2^31 must be an ordinary error"

/-! ### C15 (text form) -/

def secpN : Nat := 0xFFFFFFFFFFFFFFFFFFFFFFFFFFFFFFFEBAAEDCE6AF48A03BBFD25E8CD0364141


def judgeSigPrint (r s par : Nat) (resp : String) : Verdict :=
  let want := "0x" ++ lowerHexFixed r 64 ++ lowerHexFixed s 64 ++ lowerHexFixed (27 + par) 2
  expect (resp == "ok " ++ hx want.toUTF8.toList) "text must be 0x ‖ r(64 hex) ‖ s(64 hex) ‖ v(2 hex), v = 27 + parity"

def hexNat? (s : String) : Option Nat :=
  s.toList.foldlM (fun acc c =>
    if c.isDigit then some (acc * 16 + (c.toNat - 48))
    else if 'a' ≤ c && c ≤ 'f' then some (acc * 16 + (c.toNat - 87))
    else if 'A' ≤ c && c ≤ 'F' then some (acc * 16 + (c.toNat - 55))
    else none) 0

def judgeSigParse (text : String) (resp : String) : Verdict :=
  let body := if text.startsWith "0x" then (text.drop 2).toString else text
  let denotes : Option (Nat × Nat × Nat) :=
    if body.length == 130 then
      match hexNat? (body.take 64).toString, hexNat? ((body.drop 64).take 64).toString, hexNat? (body.drop 128).toString with
      | some r, some s, some v =>
        if (v == 27 || v == 28) && 0 < r && r < secpN && 0 < s && s < secpN then some (r, s, v - 27) else none
      | _, _, _ => none
    else none
  match denotes with
  | some (r, s, p) =>
    expect (resp == s!"ok {lowerHexFixed r 64} {lowerHexFixed s 64} {p}") "text denoting a signature must parse to exactly that signature"
  | none => expect (resp == "err") "text that does not denote a signature must be an ordinary error"

/-! ### C19 -/

def judgeHexEncode (data : Bytes) (resp : String) : Verdict :=
  let want := "0x" ++ String.join (data.map fun b => lowerHexFixed b.toNat 2) ++ "\n"
  expect (resp == "ok " ++ hx want.toUTF8.toList) "output must be 0x + two lower-case digits per byte + newline"

def judgeHexDecode (data : Bytes) (resp : String) : Verdict :=
  match String.fromUTF8? ⟨data.toArray⟩ with
  | none => expect (resp == "err") "non-UTF-8 input must be an error with no output"
  | some text =>
    let t := String.ofList (text.toList.filter fun c => !isWhitespace c)
    let digits := if t.startsWith "0x" then (t.drop 2).toString else t
    let ok := digits.length % 2 == 0 && digits.all fun c =>
      c.isDigit || ('a' ≤ c && c ≤ 'f') || ('A' ≤ c && c ≤ 'F')
    if ok then
      let rec pairs : List Char → List UInt8
        | a :: b :: rest => UInt8.ofNat ((hexNat? (String.ofList [a, b])).getD 0) :: pairs rest
        | _ => []
      let bytes := pairs digits.toList
      expect (resp == "ok " ++ hx bytes) "layout variants must decode to the bytes the digits spell"
    else expect (resp == "err") "odd digit count or non-hex character must be an error with no output"

/-! ### C07 -/

def judgeRlpItem (item : Spec.Rlp.Item) (same : Spec.Rlp.Item → Bool) (resp : String) : Verdict :=
  match resp.splitOn " " with
  | ["ok", out] =>
    match unhex out with
    | some b =>
      match Spec.Rlp.decodeAll b with
      | some it => let _ := item; expect (same it) "strict decoder returns a different value"
      | none => .fails "strict decoder rejects the output (non-canonical or trailing bytes)"
    | none => .fails "unparsable response"
  | _ => .fails "encoder did not return bytes"

def isStr (b : Bytes) : Spec.Rlp.Item → Bool
  | .str b' => b == b'
  | _ => false

end Hdw.Driver.Judge
