/- Operation table of the driver. -/
import HdwModel.Driver.Util
import HdwModel.Model.Message

namespace Hdw.Driver
open Hdw

def P : Prims := Prim.real

def runOp (parts : List String) : Resp :=
  match parts with
  | ["msg.hash", m] =>
    match unhex m with
    | some b => .ok [hx (Message.digest P b)]
    | none => .harness "bad arg"
  | ["msg.hash_rep", n, f] =>
    match n.toNat?, f.toNat? with
    | some n, some f => .ok [hx (Message.digest P (List.replicate n (UInt8.ofNat f)))]
    | _, _ => .harness "bad arg"
  | op :: _ => .harness s!"unknown op {op}"
  | [] => .harness "empty"

def runModelLine (line : String) : String :=
  (runOp (line.splitOn " ")).render

def runJudgeLine (_line : String) : String := "skip"

end Hdw.Driver
