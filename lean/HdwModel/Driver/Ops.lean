/- Operation table of the driver. -/
import HdwModel.Driver.Util
import HdwModel.Model.Message
import HdwModel.Model.Path
import HdwModel.Model.Signature
import HdwModel.Model.Rlp
import HdwModel.Model.CliHex
import HdwModel.Model.Mnemonic
import HdwModel.Model.Hdk
import HdwModel.Driver.NfkdData
import HdwModel.Model.Tx
import HdwModel.Model.TypedData
import HdwModel.Model.Cli
import HdwModel.Driver.Judge
import HdwModel.Driver.JudgeTx
import HdwModel.Driver.JudgeTd
import HdwModel.Driver.JudgeSign
import HdwModel.Prim.SecpAffine

namespace Hdw.Driver
open Hdw

def P : Prims := Prim.real
def CV : Curve Prim.Secp.Pt := Prim.realCurve

/-- run-time environment of the driver -/
structure Env where
  nfkd : NfkdTable

def compsStr (p : Path.Path) : String :=
  if p.isEmpty then "-" else
  ",".intercalate (p.map fun c => match c with
    | .hardened v => s!"h{v}"
    | .normal v => s!"n{v}")

def sigFields (σ : Sig) : List String := [nat256hex σ.r, nat256hex σ.s, toString σ.yParity]

def sigArg (r s par : String) : Option Sig := do
  let r ← unhex r
  let s ← unhex s
  let p ← par.toNat?
  -- the last argument is a k256 recovery id 0..3 (`Signature::from_parts` takes those): bit 0 is the y-parity, bit 1 ("x was
  -- reduced") plays no part in anything this crate prints or encodes
  if r.length > 32 || s.length > 32 || p > 3 then none
  else if Sig.validScalars (beVal r) (beVal s) then some ⟨beVal r, beVal s, p % 2 == 1⟩ else none

def optAddrStr (a : Option Bytes) : String := match a with
  | some b => hx b
  | none => "none"

def alStr (al : List Tx.AccessEntry) : String :=
  if al.isEmpty then "-" else
  ",".intercalate (al.map fun e => ":".intercalate (String.ofList (hexEncode e.addr) :: e.slots.map fun s => String.ofList (hexEncode s)))

def txFields : Tx.Tx → List String
  | .legacy c n gp g to v d =>
    ["legacy", (match c with | some c => nat256hex c | none => "none"), nat256hex n, nat256hex gp, nat256hex g,
     optAddrStr to, nat256hex v, hx d]
  | .eip2930 c n gp g to v d al =>
    ["eip2930", nat256hex c, nat256hex n, nat256hex gp, nat256hex g, optAddrStr to, nat256hex v, hx d, alStr al]
  | .eip1559 c n p f g to v d al =>
    ["eip1559", nat256hex c, nat256hex n, nat256hex p, nat256hex f, nat256hex g, optAddrStr to, nat256hex v, hx d, alStr al]

def selArg (s : String) : Option Cli.Selector :=
  if s == "default" then some .default else
  match s.splitOn ":" with
  | ["idx", t] => (utf8Arg t).map .index
  | ["path", t] => (utf8Arg t).map .path
  | ["both", a, b] => match utf8Arg a, utf8Arg b with
    | some a, some b => some (.both a b)
    | _, _ => none
  | _ => none

def acctArg (mn pw sel : String) : Option Cli.Account :=
  match utf8Arg mn, utf8Arg pw, selArg sel with
  | some m, some p, some s => some ⟨m, p, s⟩
  | _, _, _ => none

def streamArg (s : String) : Option (List (Option Bytes)) :=
  if s == "-" then some [] else
  (s.splitOn ",").mapM fun t => if t.startsWith "fail" then some none else (unhex t).map some

def cliOut (r : Res Bytes) : Resp := ofRes r fun b => [hx b]

def runCli (env : Env) (parts : List String) : Resp :=
  let X : Cli.Ctx Prim.Secp.Pt := ⟨P, CV, env.nfkd.nfkd⟩
  match parts with
  | ["cli.address", mn, pw, sel] => match acctArg mn pw sel with
    | some a => cliOut (Cli.address X a)
    | none => .harness "bad arg"
  | ["cli.export", mn, pw, sel] => match acctArg mn pw sel with
    | some a => cliOut (Cli.exportKey X a)
    | none => .harness "bad arg"
  | ["cli.public_key", mn, pw, sel] => match acctArg mn pw sel with
    | some a => cliOut (Cli.publicKey X a)
    | none => .harness "bad arg"
  | ["cli.hash_data", d] => match unhex d with
    | some d => .ok [hx (Cli.hashData X d)]
    | none => .harness "bad arg"
  | ["cli.hash_message", d] => match unhex d with
    | some d => .ok [hx (Cli.hashMessage X d)]
    | none => .harness "bad arg"
  | ["cli.hash_message_rep", n, b] => match n.toNat?, b.toNat? with
    | some n, some b => .ok [hx (Cli.hashMessage X (List.replicate n (UInt8.ofNat b)))]
    | _, _ => .harness "bad arg"
  | ["cli.hash_data_rep", n, b] => match n.toNat?, b.toNat? with
    | some n, some b => .ok [hx (Cli.hashData X (List.replicate n (UInt8.ofNat b)))]
    | _, _ => .harness "bad arg"
  | ["cli.hash_tx", j, sig] => match unhex j, (if sig == "none" then some none else (utf8Arg sig).map some) with
    | some j, some sig => cliOut (Cli.hashTx X j sig)
    | _, _ => .harness "bad arg"
  | ["cli.hash_td", j, mh] => match unhex j with
    | some j => cliOut (Cli.hashTypedData X j (mh == "1"))
    | none => .harness "bad arg"
  | ["cli.sign_message", mn, pw, sel, m] => match acctArg mn pw sel, unhex m with
    | some a, some m => cliOut (Cli.signMessage X a m)
    | _, _ => .harness "bad arg"
  | ["cli.sign_raw", mn, pw, sel, d] => match acctArg mn pw sel, utf8Arg d with
    | some a, some d => cliOut (Cli.signRaw X a d)
    | _, _ => .harness "bad arg"
  | ["cli.sign_td", mn, pw, sel, j] => match acctArg mn pw sel, unhex j with
    | some a, some j => cliOut (Cli.signTypedData X a j)
    | _, _ => .harness "bad arg"
  | ["cli.sign_tx", mn, pw, sel, j, so, allow] => match acctArg mn pw sel, unhex j with
    | some a, some j => cliOut (Cli.signTx X a j (so == "1") (allow == "1"))
    | _, _ => .harness "bad arg"
  | ["cli.prefix_parse", pre] => match utf8Arg pre with
    | some pre => ofRes (Cli.parsePrefix pre) fun _ => []
    | none => .harness "bad arg"
  | ["cli.new", len, stream] => match utf8Arg len, streamArg stream with
    | some len, some st =>
      let oracle : Nat → Option Bytes := fun k => match st with
        | some b :: _ => if b.length ≥ k then some (b.take k) else none
        | _ => none
      cliOut (Cli.newMnemonic X len oracle)
    | _, _ => .harness "bad arg"
  | ["cli.new_vanity", len, pre, pw, sel, stream] =>
    match utf8Arg len, utf8Arg pre, utf8Arg pw, selArg sel, streamArg stream with
    | some len, some pre, some pw, some sel, some st =>
      let r : Res Bytes :=
        match parseUInt 64 len with
        | none => .err "length"
        | some n => (Cli.parsePrefix pre).bind fun p => Cli.vanitySearch X n p pw sel st
      cliOut r
    | _, _, _, _, _ => .harness "bad arg"
  | op :: _ => .harness s!"unknown op {op}"
  | [] => .harness "empty"

def runOp (env : Env) (parts : List String) : Resp :=
  match parts with
  | ["msg.hash", m] =>
    match unhex m with
    | some b => .ok [hx (Message.digest P b)]
    | none => .harness "bad arg"
  | ["msg.hash_rep", n, f] =>
    match n.toNat?, f.toNat? with
    | some n, some f => .ok [hx (Message.digest P (List.replicate n (UInt8.ofNat f)))]
    | _, _ => .harness "bad arg"
  | ["mn.parse", a] =>
    match utf8Arg a with
    | some s =>
      let r : Res (Str × Nat) := do
        let m ← Mnemonic.fromPhrase P s
        let ph ← Mnemonic.toPhrase m
        pure (ph, Mnemonic.mnemonicLength m)
      ofRes r fun (ph, n) => [hxStr ph, toString n, hxStr ph]
    | none => .harness "bad arg"
  | ["mn.random", n, ent] =>
    match n.toNat?, (if ent.startsWith "fail" then some none else (unhex ent).map some) with
    | some n, some inject =>
      -- the oracle hands out the first `k` injected bytes (failure if fewer are available) and
      -- logs the request, exactly like the harness's `getentropy`
      let oracle : Nat → Option Bytes := fun k =>
        match inject with
        | some b => if b.length ≥ k then some (b.take k) else none
        | none => none
      let requested : Option Nat := (Mnemonic.mnemonicToByteLength n).toOption
      let r : Res (Str × Nat) := do
        let m ← Mnemonic.random P oracle n
        let ph ← Mnemonic.toPhrase m
        pure (ph, Mnemonic.mnemonicLength m)
      match r with
      | .ok (ph, k) => .ok [hxStr ph, toString k, toString (requested.getD 0)]
      | .err _ => .err
      | .panic _ => .panic
    | _, _ => .harness "bad arg"
  | ["mn.seed", ph, pw] =>
    match utf8Arg ph, utf8Arg pw with
    | some ph, some pw =>
      let r : Res Bytes := do
        let m ← Mnemonic.fromPhrase P ph
        Mnemonic.seed P env.nfkd.nfkd m pw
      ofRes r fun b => [hx b]
    | _, _ => .harness "bad arg"
  | ["hdk.derive", seed, path] =>
    match unhex seed, utf8Arg path with
    | some seed, some path =>
      let r : Res Nat := do
        let p ← Path.parse path
        Hdk.derive P CV seed p
      ofRes r fun k => [hx (Account.secret k)]
    | _, _ => .harness "bad arg"
  | ["acct.new", b] =>
    match unhex b with
    | some b => ofRes (Account.new CV b) fun d =>
        [hx (Account.secret d), hx (Account.publicUncompressed CV d),
         hxStr (Account.addressDisplay P (Account.address P CV d))]
    | none => .harness "bad arg"
  | ["secp.affine", b] =>
    -- k·G by the VERIFIED affine arithmetic (`Prim/SecpAffine.lean`, proved to be the group law of secp256k1 in
    -- `Props/SecpInstance.lean`), which must also agree with the fast Jacobian arithmetic every other op uses
    match unhex b with
    | some b =>
      let k := beVal b
      if b.length != 32 || k == 0 || k ≥ Prim.Secp.n then .harness "scalar must be 32 bytes in [1, n-1]" else
      match Hdw.Lemmas.SecpInstance.mulA 256 k (some (Prim.Secp.gx, Prim.Secp.gy)), Prim.Secp.mulG k with
      | some (x, y), some (x', y') =>
        if x % Prim.Secp.p == x' && y % Prim.Secp.p == y' then .ok [hx (0x04 :: (beFixed 32 x' ++ beFixed 32 y'))]
        else .harness "the fast Jacobian arithmetic of the driver disagrees with the verified affine arithmetic"
      | _, _ => .harness "the fast Jacobian arithmetic of the driver disagrees with the verified affine arithmetic"
    | none => .harness "bad arg"
  | ["acct.sign", key, digest] =>
    match unhex key, unhex digest with
    | some key, some digest =>
      if digest.length != 32 then .harness "digest must be 32 bytes" else
      let r : Res Sig := do
        let d ← Account.new CV key
        Account.trySign P CV d digest
      ofRes r sigFields
    | _, _ => .harness "bad arg"
  | ["tx.parse", j] =>
    match unhex j with
    | some j => ofRes (Tx.parse j) txFields
    | none => .harness "bad arg"
  | ["tx.sign", j, key] =>
    match unhex j, unhex key with
    | some j, some key =>
      match Account.new CV key with
      | .ok d =>
        let r : Res (Bytes × Bytes × Sig) := do
          let tx ← Tx.parse j
          let digest ← Tx.signingMessage P tx
          let σ ← Account.trySign P CV d digest
          let enc ← Tx.encode tx σ
          pure (digest, enc, σ)
        ofRes r fun (digest, enc, σ) => [hx digest, hx enc] ++ sigFields σ
      | _ => .harness "key"
    | _, _ => .harness "bad arg"
  | ["tx.encode", j, r, s, par] =>
    match unhex j, sigArg r s par with
    | some j, some σ =>
      let res : Res (Bytes × Bytes) := do
        let tx ← Tx.parse j
        let digest ← Tx.signingMessage P tx
        let enc ← Tx.encode tx σ
        pure (digest, enc)
      ofRes res fun (digest, enc) => [hx digest, hx enc]
    | _, _ => .harness "bad arg"
  | ["td.hash", j] =>
    match unhex j with
    | some j => ofRes (TypedData.parseAndCompute P j) fun d => [hx d.domainSeparator, hx d.messageHash, hx d.digest]
    | none => .harness "bad arg"
  | ["td.encode_type", tj, name] =>
    match unhex tj, utf8Arg name with
    | some tj, some name =>
      let r : Res Str :=
        match Json.parseRaw tj with
        | some (.obj kv) =>
          if !SerdeNum.numbersOk (.obj kv) then .err "number" else
          (TypedData.typesOfJson kv).bind fun ts => TypedData.encodeType ts name
        | _ => .err "invalid types"
      ofRes r fun s => [hxStr s]
    | _, _ => .harness "bad arg"
  | ["td.kind", a] =>
    match utf8Arg a with
    | some s => .ok [hxStr (TypedData.MemberKind.parse s).print]
    | none => .harness "bad arg"
  | ["json.f64", lit] =>
    match utf8Arg lit with
    | some s =>
      match Json.parseValueDoc (Utf8.encode s) with
      | some (.num n) =>
        match SerdeNum.classify n with
        | some (.u64 v) => .ok [String.ofList (hexEncode (beFixed 8 (F64.bits false (F64.ofNat v))))]
        | some (.i64 m) => .ok [String.ofList (hexEncode (beFixed 8 (F64.bits true (F64.ofNat m))))]
        | some (.f64 neg f) => .ok [String.ofList (hexEncode (beFixed 8 (F64.bits neg f)))]
        | none => .err
      | _ => .err
    | none => .harness "bad arg"
  | ["path.parse", a] =>
    match utf8Arg a with
    | some s => ofRes (Path.parse s) fun p =>
        [hxStr (Path.print p), compsStr p]
    | none => .harness "bad arg"
  | ["path.for_index", i] =>
    match i.toNat? with
    | some i => ofRes (Path.forIndex i) fun p => [hxStr (Path.print p)]
    | none => .harness "bad arg"
  | ["sig.parse", a] =>
    match utf8Arg a with
    | some s => ofRes (Sig.parse s) sigFields
    | none => .harness "bad arg"
  | ["sig.print", r, s, par] =>
    match sigArg r s par with
    | some σ => .ok [hxStr (Sig.print σ)]
    | none => .harness "invalid scalars"
  | ["sig.v", par, chain] =>
    match par.toNat?, (if chain == "none" then some none else (unhex chain).map (fun b => some (beVal b))) with
    | some par, some c => if par > 3 then .harness "bad recovery id" else ofRes (Sig.v ⟨1, 1, par % 2 == 1⟩ c) fun v => [nat256hex v]
    | _, _ => .harness "bad arg"
  | ["rlp.len", n, off] =>
    match n.toNat?, off.toNat? with
    | some n, some off => ofRes (Rlp.len n off) fun b => [hx b]
    | _, _ => .harness "bad arg"
  | ["rlp.bytes", b] =>
    match unhex b with
    | some b => ofRes (Rlp.bytes b) fun o => [hx o]
    | none => .harness "bad arg"
  | ["rlp.bytes_rep", n, f] =>
    match n.toNat?, f.toNat? with
    | some n, some f =>
      -- header only: the payload is checked for integrity on the implementation side
      let hdr : Res Bytes := if n = 1 ∧ f < 0x80 then .ok [] else Rlp.len n 0x80
      ofRes hdr fun h => [hx h, toString n, "true"]
    | _, _ => .harness "bad arg"
  | ["rlp.uint", v] =>
    match unhex v with
    | some b => ofRes (Rlp.uint (beVal b)) fun o => [hx o]
    | none => .harness "bad arg"
  | ["rlp.list", items] =>
    let parts := if items == "-" then some [] else (items.splitOn ",").mapM unhex
    match parts with
    | some is => ofRes (Rlp.list is) fun o => [hx o]
    | none => .harness "bad arg"
  | ["cli.hex_encode", d] =>
    match unhex d with
    | some b => .ok [hx (Cli.hexEncodeCmd b)]
    | none => .harness "bad arg"
  | ["cli.hex_decode", d] =>
    match unhex d with
    | some b => ofRes (Cli.hexDecodeCmd b) fun o => [hx o]
    | none => .harness "bad arg"
  | op :: rest => if op.startsWith "cli." then runCli env (op :: rest) else .harness s!"unknown op {op}"
  | [] => .harness "empty"

/-- `seq <hex(line 1)> …`: the model has no state, so a sequence is answered line by line -/
def seqParts (line : String) : Option (List String) :=
  ((line.splitOn " ").drop 1).mapM fun h => (unhex h).bind fun b => String.fromUTF8? ⟨b.toArray⟩

def runModelLine (env : Env) (line : String) : String :=
  if line.startsWith "seq " then
    match seqParts line with
    | some subs => " ".intercalate ("ok" :: subs.map fun l => hx ((runOp env (l.splitOn " ")).render).toUTF8.toList)
    | none => "harness-error bad seq"
  else (runOp env (line.splitOn " ")).render

open Judge in
def judgeOp (env : Env) (parts : List String) (resp : String) : Verdict :=
  match parts with
  | ["msg.hash", m] => match unhex m with
    | some b => judgeMsgHash b resp
    | none => .skip
  | ["msg.hash_rep", n, f] => match n.toNat?, f.toNat? with
    | some n, some f => judgeMsgHash (List.replicate n (UInt8.ofNat f)) resp
    | _, _ => .skip
  | ["mn.parse", a] => match utf8Arg a with
    | some s => judgeMnParse s resp
    | none => .skip
  | ["mn.random", n, ent] =>
    match n.toNat?, (if ent.startsWith "fail" then some none else (unhex ent).map some) with
    | some n, some inject => judgeMnRandom n inject resp
    | _, _ => .skip
  | ["tx.parse", j] => match unhex j with
    | some j => judgeTxParse j resp
    | none => .skip
  | ["tx.sign", j, key] => match unhex j, unhex key with
    | some j, some key =>
      -- same judge as `sign transaction`: strict decode, fields, v, verify + recover over the
      -- EIP-155/2718 payload; plus the reported signing digest
      match resp.splitOn " " with
      | ["ok", dg, enc, _, _, _] =>
        match Tx.parse j, unhex enc with
        | .ok tx, some encb =>
          if dg != hx (Prim.keccak256 (Spec.Tx.signingPayload tx)) then .fails "signing digest is not keccak256 of the payload without signature"
          else
            let text := "0x" ++ String.ofList (hexEncode encb) ++ "\n"
            judgeSignTx (beVal key) j false true ("ok " ++ hx text.toUTF8.toList)
        | _, _ => .fails "accepted although the document does not parse"
      | _ => judgeSignTx (beVal key) j false true resp
    | _, _ => .skip
  | ["tx.encode", j, r, s, par] =>
    -- a chosen signature (any scalar width): the bytes must strictly decode to the document's
    -- fields followed by exactly (v | yParity, r, s) as canonical integers
    match unhex j, unhex r, unhex s, par.toNat? with
    | some j, some r, some s, some par =>
      match Tx.parse j, resp.splitOn " " with
      | .ok tx, ["ok", dg, enc] =>
        match unhex enc with
        | some encb =>
          if dg != hx (Prim.keccak256 (Spec.Tx.signingPayload tx)) then .fails "signing digest is not keccak256 of the payload without signature"
          else
            let want := Spec.Tx.expected tx (some ⟨Spec.Tx.sigV tx (par % 2), beVal r, beVal s⟩)
            match Spec.Tx.decode encb with
            | some dec => expect (dec == want) "decoded fields / (v, r, s) differ from the document and the given signature"
            | none => .fails "strict decoder rejects the signed bytes (non-canonical integer or length?)"
        | none => .fails "unparsable"
      | .ok _, _ => .fails "encoding an accepted transaction must succeed"
      | _, _ => expect (resp == "err") "document does not parse: must be refused"
    | _, _, _, _ => .skip
  | ["td.hash", j] => match unhex j with
    | some j => judgeTdHash j resp
    | none => .skip
  | ["td.encode_type", tj, name] => match unhex tj, utf8Arg name with
    | some tj, some name => judgeEncodeType tj name resp
    | _, _ => .skip
  | ["hdk.derive", seed, path] => match unhex seed, utf8Arg path with
    | some seed, some path => judgeDerive seed (String.ofList path) resp
    | _, _ => .skip
  | ["acct.new", b] => match unhex b with
    | some b => judgeAcctNew b resp
    | none => .skip
  | ["acct.sign", key, digest] => match unhex key, unhex digest with
    | some key, some digest => judgeSign key digest resp
    | _, _ => .skip
  | ["sig.v", par, chain] =>
    -- EIP-155 as arithmetic on integers: v = 35 + 2c + yParity (27 + yParity without chain id); when that does not fit
    -- 256 bits the statement wants an ordinary error (a wrapped v names another chain)
    match par.toNat?, (if chain == "none" then some none else (unhex chain).map (fun b => some (beVal b))) with
    | some rid, some c =>
      let par := rid % 2
      let v := match c with | some c => 35 + 2 * c + par | none => 27 + par
      if rid > 3 then .skip
      else if v < 2 ^ 256 then expect (resp == "ok " ++ nat256hex v) "v must be 35 + 2·chainId + yParity (27 + yParity without chain id) exactly, as an integer"
      else expect (resp == "err" || resp == "panic") "35 + 2·chainId + yParity does not fit 256 bits: no v may be produced"
    | _, _ => .skip
  | ["mn.seed", ph, pw] => match utf8Arg ph, utf8Arg pw with
    | some ph, some pw => judgeSeed env.nfkd ph pw resp
    | _, _ => .skip
  | ["path.parse", a] => match utf8Arg a with
    | some s => judgePathParse (String.ofList s) resp
    | none => .skip
  | ["path.for_index", i] => match i.toNat? with
    | some i => judgeForIndex i resp
    | none => .skip
  | ["sig.print", r, s, p] => match unhex r, unhex s, p.toNat? with
    | some r, some s, some p => if p > 3 then .skip else judgeSigPrint (beVal r) (beVal s) (p % 2) resp
    | _, _, _ => .skip
  | ["sig.parse", a] => match utf8Arg a with
    | some s => judgeSigParse (String.ofList s) resp
    | none => .skip
  | ["cli.hex_encode", d] => match unhex d with
    | some b => judgeHexEncode b resp
    | none => .skip
  | ["cli.hex_decode", d] => match unhex d with
    | some b => judgeHexDecode b resp
    | none => .skip
  | ["rlp.bytes", b] => match unhex b with
    | some b => judgeRlpItem (.str b) (isStr b) resp
    | none => .skip
  | ["rlp.len", n, off] => match n.toNat?, off.toNat? with
    | some n, some off =>
      if (off == 128 || off == 192) && n < 2 ^ 64 then
        expect (resp == "ok " ++ hx (Spec.Rlp.header n off)) "length header differs from the Yellow-Paper header"
      else .skip
    | _, _ => .skip
  | ["rlp.bytes_rep", n, f] => match n.toNat?, f.toNat? with
    | some n, some f =>
      let hdr : Bytes := if n == 1 && f < 128 then [] else Spec.Rlp.header n 128
      expect (resp == s!"ok {hx hdr} {n} true") "header of a long string differs from the Yellow-Paper header, or payload damaged"
    | _, _ => .skip
  | ["rlp.list", items] =>
    let parts := if items == "-" then some [] else (items.splitOn ",").mapM unhex
    match parts with
    | some is =>
      -- only meaningful when the inputs are themselves canonical items
      match is.mapM Spec.Rlp.decodeAll with
      | some its =>
        judgeRlpItem (.list its) (fun it => Spec.Rlp.encode it == Spec.Rlp.encode (.list its)) resp
      | none => .skip
    | none => .skip
  | ["rlp.uint", v] => match unhex v with
    | some b =>
      -- the integer must come back as a string without leading zero whose value is v
      judgeRlpItem (.str b) (fun it => match it with
        | .str o => o.head? != some 0 && beVal o == beVal b
        | _ => false) resp
    | none => .skip
  | _ => .skip

/-- decimal digits only (Lean's `String.toNat?` also accepts `_` separators, which no option parser here does) -/
def strictNat? (s : String) : Option Nat :=
  if !s.isEmpty && s.all Char.isDigit then s.toNat? else none

def judgeCli (env : Env) (parts : List String) (resp : String) : Judge.Verdict :=
  let X : Cli.Ctx Prim.Secp.Pt := ⟨P, CV, env.nfkd.nfkd⟩
  match parts with
  | ["cli.sign_tx", mn, pw, sel, j, so, allow] =>
    match acctArg mn pw sel, unhex j with
    | some a, some j =>
      match Cli.privateKey X a with
      | .ok d => Judge.judgeSignTx d j (so == "1") (allow == "1") resp
      | _ => .skip
    | _, _ => .skip
  | ["cli.hex_encode", d] => match unhex d with
    | some b => Judge.judgeHexEncode b resp
    | none => .skip
  | ["cli.hex_decode", d] => match unhex d with
    | some b => Judge.judgeHexDecode b resp
    | none => .skip
  | ["cli.hash_td", j, mh] => match unhex j with
    | some j => Judge.judgeCliHashTd j (mh == "1") resp
    | none => .skip
  | ["cli.sign_message", mn, pw, sel, m] =>
    match acctArg mn pw sel, unhex m with
    | some a, some m =>
      match Cli.privateKey X a with
      | .ok d => Judge.judgeSignedLine d (Judge.eip191 m) resp
      | .err _ => Judge.expect (resp == "err") "no key can be selected: must be an error with no output"
      | .panic _ => .skip
    | _, _ => .skip
  | ["cli.sign_raw", mn, pw, sel, dt] =>
    match acctArg mn pw sel, utf8Arg dt with
    | some a, some dt =>
      let t := String.ofList dt
      let body := if t.startsWith "0x" then (t.drop 2).toString else t
      let isHex := body.length == 64 && body.all fun c => c.isDigit || ('a' ≤ c && c ≤ 'f') || ('A' ≤ c && c ≤ 'F')
      if !isHex then .skip else
      match Cli.privateKey X a, unhex body.toLower with
      | .ok d, some dg => Judge.judgeSignedLine d dg resp
      | .err _, _ => Judge.expect (resp == "err") "no key can be selected: must be an error with no output"
      | _, _ => .skip
    | _, _ => .skip
  | ["cli.sign_td", mn, pw, sel, j] =>
    match acctArg mn pw sel, unhex j with
    | some a, some j =>
      match Cli.privateKey X a, Judge.specTdDigest j with
      | .ok d, some (some dg, open_) => if open_ && resp == "err" then .holds else Judge.judgeSignedLine d dg resp
      | .ok _, some (none, _) => Judge.expect (resp == "err") "ill-formed domain type / non-conforming document: nothing may be signed"
      | .err _, _ => Judge.expect (resp == "err") "no key can be selected: must be an error with no output"
      | _, _ => .skip
    | _, _ => .skip
  | ["cli.hash_tx", j, sig] =>
    match unhex j, (if sig == "none" then some none else (utf8Arg sig).map fun t => some (String.ofList t)) with
    | some j, some σ => Judge.judgeCliHashTx j σ resp
    | _, _ => .skip
  | ["cli.hash_message", m] => match unhex m with
    | some m => Judge.judgeCliDigest (Judge.eip191 m) resp
    | none => .skip
  | ["cli.hash_message_rep", n, b] => match n.toNat?, b.toNat? with
    | some n, some b => Judge.judgeCliDigest (Judge.eip191 (List.replicate n (UInt8.ofNat b))) resp
    | _, _ => .skip
  | ["cli.hash_data", m] => match unhex m with
    | some m => Judge.judgeCliDigest (Prim.keccak256 m) resp
    | none => .skip
  | ["cli.hash_data_rep", n, b] => match n.toNat?, b.toNat? with
    | some n, some b => Judge.judgeCliDigest (Prim.keccak256 (List.replicate n (UInt8.ofNat b))) resp
    | _, _ => .skip
  | [cmd, mn, pw, sel] =>
    if cmd == "cli.address" || cmd == "cli.export" || cmd == "cli.public_key" then
      match acctArg mn pw sel with
      | some a =>
        match Cli.privateKey X a with
        | .ok d =>
          -- the key comes from the (proved) selection model; the *formatting* is judged independently
          match Prim.Secp.mulG d with
          | some (x, y) =>
            let want :=
              if cmd == "cli.export" then "0x" ++ Judge.lowerHexFixed d 64
              else if cmd == "cli.public_key" then "0x04" ++ Judge.lowerHexFixed x 64 ++ Judge.lowerHexFixed y 64
              else Judge.eip55 ((Prim.keccak256 (beFixed 32 x ++ beFixed 32 y)).drop 12)
            Judge.expect (resp == "ok " ++ hx (want ++ "\n").toUTF8.toList)
              "output must be the EIP-55 address / 0x + 64 hex digits of the secret / 0x04 + 128 hex digits of the coordinates, and a newline"
          | none => .skip
        | _ => Judge.expect (resp == "err") "no key can be selected: must be an error with no output"
      | none => .skip
    else .skip
  | ["cli.prefix_parse", pre] =>
    match utf8Arg pre with
    | some pre =>
      let t := String.ofList pre
      let isHex := t.startsWith "0x" && ((t.drop 2).toString.all fun c => c.isDigit || ('a' ≤ c && c ≤ 'f') || ('A' ≤ c && c ≤ 'F'))
      Judge.expect (resp == (if isHex then "ok" else "err")) "a vanity prefix is accepted iff it is 0x followed by hexadecimal digits (either case, even or odd count)"
    | none => .skip
  | ["cli.new_vanity", len, pre, pw, sel, stream] =>
    -- single-threaded search over a known entropy stream (C12 + C18 as statements): the printed phrase is the BIP-39
    -- sentence (reference list, SHA-256 checksum) of the first request whose selected account's address starts with
    -- the prefix digits; a failing request before that is an error; nothing else may be printed
    match utf8Arg len, utf8Arg pre, utf8Arg pw, selArg sel, streamArg stream with
    | some len, some pre, some pw, some sel, some st =>
      let t := String.ofList pre
      let digits := (t.drop 2).toString.toLower
      let isHex := t.startsWith "0x" && digits.all fun c => c.isDigit || ('a' ≤ c && c ≤ 'f')
      match strictNat? (String.ofList len) with
      | none => .skip
      | some n =>
        if !(n == 12 || n == 15 || n == 18 || n == 21 || n == 24) || !isHex then .skip else
        match Cli.selectedPath sel with
        | .ok _ =>
          let need := n * 4 / 3
          let rec walk : List (Option Bytes) → Option String
            | [] => some "err"
            | none :: _ => some "err"
            | some b :: rest =>
              if b.length < need then some "err" else
              let ent := b.take need
              let words := (Spec.Bip39.indices Prim.sha256 ent).map fun i => Judge.referenceTable.getD i []
              let phrase : Str := (String.intercalate " " (words.map String.ofList)).toList
              match Cli.privateKey X ⟨phrase, pw, sel⟩ with
              | .ok d =>
                match Prim.Secp.mulG d with
                | some (x, y) =>
                  let addr := (Prim.keccak256 (beFixed 32 x ++ beFixed 32 y)).drop 12
                  let addrHex := String.join (addr.map fun b => Judge.lowerHexFixed b.toNat 2)
                  if addrHex.startsWith digits then some ("ok " ++ hx (Utf8.encode (phrase ++ ['\n'])))
                  else walk rest
                | none => none
              | _ => none
          match walk st with
          | some want => Judge.expect (resp == want)
              "the search must print exactly the BIP-39 sentence of the first entropy request whose account address starts with the prefix (valid checksum, L words), or fail when the source fails first"
          | none => .skip
        | _ => .skip
    | _, _, _, _, _ => .skip
  | ["cli.new", len, stream] =>
    match utf8Arg len, streamArg stream with
    | some len, some st =>
      match strictNat? (String.ofList len) with
      | none => .skip
      | some n =>
        let inject : Option Bytes := match st with | some b :: _ => some b | _ => none
        -- rewrite the CLI response (stdout = phrase + newline) into the shape of `mn.random`
        let resp' := match resp.splitOn " " with
          | ["ok", out] =>
            match unhex out with
            | some o =>
              let text := (String.fromUTF8? ⟨o.toArray⟩).getD ""
              if text.endsWith "\n" then
                let ph := (text.dropEnd 1).toString
                s!"ok {hx ph.toUTF8.toList} {(ph.splitOn " ").length} {n * 4 / 3}"
              else "bad-output"
            | none => "bad-output"
          | _ => resp
        Judge.judgeMnRandom n inject resp'
    | _, _ => .skip
  | _ => .skip

def judgeOne (env : Env) (op resp : String) : Judge.Verdict :=
  if resp.startsWith "ok impure:" then
    .fails ("the answer is not a function of the input alone: " ++ (resp.drop 3).toString)
  else if op.startsWith "cli." then judgeCli env (op.splitOn " ") resp
  else judgeOp env (op.splitOn " ") resp

def runJudgeLine (env : Env) (line : String) : String :=
  match line.splitOn "\t" with
  | [op, resp] =>
    if op.startsWith "seq " then
      -- every answer of the sequence is judged as if its line stood alone: the statements are about single inputs
      match seqParts op, seqParts resp with
      | some ops, some resps =>
        if ops.length != resps.length then "fails sequence answered with a different number of answers"
        else
          let vs : List Judge.Verdict := (ops.zip resps).map fun (o, r) => judgeOne env o r
          let firstFail : Option (Nat × String) := vs.zipIdx.findSome? fun (p : Judge.Verdict × Nat) =>
            match p.1 with
            | Judge.Verdict.fails why => some (p.2, why)
            | _ => none
          match firstFail with
          | some (i, why) => s!"fails in position {i + 1} of the sequence: {why}"
          | none =>
            if vs.all (fun v => match v with | Judge.Verdict.holds => true | _ => false) then "holds" else "skip"
      | _, _ => if resp.startsWith "ok" then "skip" else "fails sequence not answered"
    else (judgeOne env op resp).render
  | _ => "skip"

end Hdw.Driver
