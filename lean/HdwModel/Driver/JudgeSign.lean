/- Judges for the `sign message | raw | typeddata` commands (C16 with C05/C10/C08): the printed text is the RFC 6979
signature of the selected account's key over the digest the matching `hash` command defines. -/
import HdwModel.Driver.JudgeTd
import HdwModel.Spec.Rfc6979

namespace Hdw.Driver.Judge
open Hdw Hdw.Driver Hdw.Json Hdw.TypedData

/-- RFC 6979 (HMAC-SHA256, no additional data) + ECDSA + low-s, as (r, s, parity); `none` where the statement is silent
(digest not below n, or the 2^-128 events x(kG) ≥ n / r = 0 / s = 0) -/
def specSignature (d : Nat) (digest : Bytes) : Option (Nat × Nat × Nat) :=
  let n := Prim.Secp.n
  let z := beVal digest
  if digest.length != 32 || z ≥ n then none else
  match Spec.Rfc6979.nonce (Prim.hmac Prim.sha256 64) n d digest 64 with
  | some k =>
    match Prim.Secp.mulG k with
    | some (x, y) =>
      if x ≥ n then none else
      let r := x
      let rec pw (b e m acc : Nat) (fuel : Nat) : Nat := match fuel with
        | 0 => acc
        | f + 1 => if e == 0 then acc else pw (b * b % m) (e / 2) m (if e % 2 == 1 then acc * b % m else acc) f
      let kinv := pw (k % n) (n - 2) n 1 260
      let s0 := (kinv * ((z + r * d) % n)) % n
      if r == 0 || s0 == 0 then none else
      let flip := s0 > n / 2
      let s := if flip then n - s0 else s0
      let par := if (y % 2 == 1) != flip then 1 else 0
      some (r, s, par)
    | none => none
  | none => none

/-- the line a `sign` command prints for key `d` and `digest` -/
def judgeSignedLine (d : Nat) (digest : Bytes) (resp : String) : Verdict :=
  match specSignature d digest with
  | some (r, s, par) =>
    let want := "0x" ++ lowerHexFixed r 64 ++ lowerHexFixed s 64 ++ lowerHexFixed (27 + par) 2 ++ "\n"
    expect (resp == "ok " ++ hx want.toUTF8.toList)
      "the command must print 0x ‖ r ‖ s ‖ v of the RFC 6979 signature by the selected account's key over the digest the matching hash command prints"
  | none => .skip

/-- the typed-data signing digest per the EIP-712 spec; `none` = document refused; `skip` cases return `some none` -/
def specTdDigest (input : Bytes) : Option (Option Bytes × Bool) :=
  match Json.parseRaw input with
  | none => none
  | some raw =>
    match blobOfJson raw with
    | .ok b =>
      let fuel := 3 * (jsizeMembers b.domain + jsizeMembers b.message) + 4
      let open_ := hasOpenLiteralMembers b.domain || hasOpenLiteralMembers b.message
      match Spec.Eip712.digests Prim.keccak256 b.types b.primaryType b.domain b.message fuel with
      | some (_, _, dg) => some (some dg, open_)
      | none => if hasDoubledPrefixMembers b.domain || hasDoubledPrefixMembers b.message then none else some (none, open_)
    | _ => none

end Hdw.Driver.Judge
