/-
Judges for transaction JSON (C13), signed encodings (C06) and replay protection (C11),
written from the property statements and EIP-155/2718/2930/1559.
-/
import HdwModel.Driver.Judge
import HdwModel.Model.Json
import HdwModel.Spec.Tx
import HdwModel.Model.Tx

namespace Hdw.Driver.Judge
open Hdw Hdw.Driver Hdw.Json

/-- what the statement demands for one field -/
inductive Expect (α : Type) where
  | must (v : α)     -- must be accepted with exactly this value
  | may (v : α)      -- either accepted with exactly this value or refused
  | reject           -- must be refused
  deriving Repr

def digitsToNat (ds : List Nat) : Nat := ds.foldl (fun a d => a * 10 + d) 0

/-- exact mathematical value of a number literal if it is a non-negative integer below 2^256 -/
def exactUInt? (n : NumLit) : Option Nat :=
  let m := digitsToNat (n.intDigits ++ (n.fracDigits.getD []))
  let fracLen := (n.fracDigits.getD []).length
  let e : Int := (match n.exp with
    | some (eneg, ds) => if eneg then -(digitsToNat ds : Int) else (digitsToNat ds : Int)
    | none => 0) - fracLen
  if m = 0 then some 0
  else if n.neg then none
  else if e ≥ 0 then
    if e > 80 then none else
    let v := m * 10 ^ e.toNat
    if v < 2 ^ 256 then some v else none
  else
    let k := (-e).toNat
    if k > 400 then none else
    if m % 10 ^ k = 0 then
      let v := m / 10 ^ k
      if v < 2 ^ 256 then some v else none
    else none

def isFloatSyntax (n : NumLit) : Bool := n.fracDigits.isSome || n.exp.isSome

/-- "short" float literals, on which any IEEE conversion is exact: ≤ 15 significant digits and
a small exponent -/
def shortFloat (n : NumLit) : Bool :=
  (n.intDigits ++ n.fracDigits.getD []).length ≤ 15 &&
  (match n.exp with | some (_, ds) => digitsToNat ds ≤ 22 | none => true)

def allDigits (s : Str) : Bool := !s.isEmpty && s.all fun c => c.isDigit
def allHex (s : Str) : Bool := s.all fun c => c.isDigit || ('a' ≤ c && c ≤ 'f') || ('A' ≤ c && c ≤ 'F')
def hexStrVal (s : Str) : Nat := s.foldl (fun a c => a * 16 + (hexVal? c).getD 0) 0

def expectUint (v : JVal) : Expect Nat :=
  match v with
  | .num n =>
    match exactUInt? n with
    | some x =>
      if !isFloatSyntax n then (if x < 2 ^ 64 then .must x else .may x)
      else if x < 2 ^ 53 && shortFloat n then .must x else .may x
    | none => .reject
  | .str s =>
    if allDigits s then
      let x := digitsToNat (s.map fun c => c.toNat - 48)
      if x < 2 ^ 256 then .must x else .reject
    else match s with
      | '0' :: 'x' :: h =>
        if !h.isEmpty && allHex h then (if hexStrVal h < 2 ^ 256 then .must (hexStrVal h) else .reject)
        else .reject
      | '+' :: rest =>
        -- a leading plus sign: the statement is silent; either refused or the same number
        if allDigits rest then
          let x := digitsToNat (rest.map fun c => c.toNat - 48)
          if x < 2 ^ 256 then .may x else .reject
        else match rest with
          | '0' :: 'x' :: h => if !h.isEmpty && allHex h && hexStrVal h < 2 ^ 256 then .may (hexStrVal h) else .reject
          | _ => .reject
      | '0' :: 'b' :: b =>
        if !b.isEmpty && b.all (fun c => c = '0' || c = '1') then
          let x := b.foldl (fun a c => a * 2 + (c.toNat - 48)) 0
          if x < 2 ^ 256 then .may x else .reject
        else .reject
      | '0' :: 'o' :: o =>
        if !o.isEmpty && o.all (fun c => '0' ≤ c && c ≤ '7') then
          let x := o.foldl (fun a c => a * 8 + (c.toNat - 48)) 0
          if x < 2 ^ 256 then .may x else .reject
        else .reject
      | _ => .reject
  | _ => .reject

def expectAddr (v : JVal) : Expect String :=
  match v with
  | .str ('0' :: 'x' :: h) =>
    if h.length = 40 && allHex h then .must (String.ofList (h.map Char.toLower))
    else match h with
      | '0' :: 'x' :: h' => if h'.length = 40 && allHex h' then .may (String.ofList (h'.map Char.toLower)) else .reject
      | _ => .reject
  | _ => .reject

def expectBytes (n? : Option Nat) (v : JVal) : Expect String :=
  match v with
  | .str ('0' :: 'x' :: h) =>
    if allHex h && h.length % 2 = 0 && (match n? with | some n => h.length = 2 * n | none => true) then
      .must (if h.isEmpty then "-" else String.ofList (h.map Char.toLower))
    else .reject
  | _ => .reject

def expectAccessList (v : JVal) : Expect String :=
  match v with
  | .arr entries =>
    -- (text, lenient): `lenient` when the entry's address is spelt with the doubled prefix that `ethaddr` lets through
    -- (DESIGN 13.4 n3: the statement is silent, the value is the same address)
    let parts : List (Option (String × Bool)) := entries.map fun e =>
      match e with
      | .arr [a, .arr slots] =>
        let addr? : Option (String × Bool) := match expectAddr a with
          | .must addr => some (addr, false)
          | .may addr => some (addr, true)
          | _ => none
        match addr? with
        | some (addr, lenient) =>
          let ss := slots.map (expectBytes (some 32))
          if ss.all (fun x => match x with | .must _ => true | _ => false) then
            some (":".intercalate (addr :: ss.map fun x => match x with | .must s => s | _ => ""), lenient)
          else none
        | none => none
      | _ => none
    if parts.all Option.isSome then
      let text := if parts.isEmpty then "-" else ",".intercalate (parts.map fun p => (p.getD ("", false)).1)
      if parts.any (fun p => (p.getD ("", false)).2) then .may text else .must text
    else .reject
  | _ => .reject

def pad64 (n : Nat) : String := lowerHexFixed n 64

/-- expected response of `tx.parse` as a list of per-field expectations -/
def expectTx (doc : JVal) : Option (List (Expect String)) :=
  match doc with
  | .obj kv =>
    let get (k : String) := JVal.get? k.toList kv
    let has (k : String) := (get k).isSome
    let uint (k : String) : Expect String :=
      match get k with
      | some v => (match expectUint v with | .must x => .must (pad64 x) | .may x => .may (pad64 x) | .reject => .reject)
      | none => .reject
    let to : Expect String :=
      match get "to" with
      | none => .must "none"
      | some .null => .must "none"
      | some v => expectAddr v
    let data : Expect String := match get "data" with | some v => expectBytes none v | none => .reject
    if has "maxPriorityFeePerGas" || has "maxFeePerGas" then
      some [.must "eip1559", uint "chainId", uint "nonce", uint "maxPriorityFeePerGas", uint "maxFeePerGas", uint "gas",
            to, uint "value", data, (match get "accessList" with | some v => expectAccessList v | none => .must "-")]
    else if has "accessList" then
      some [.must "eip2930", uint "chainId", uint "nonce", uint "gasPrice", uint "gas", to, uint "value", data,
            (match get "accessList" with | some v => expectAccessList v | none => .reject)]
    else
      let chain : Expect String :=
        match get "chainId" with
        | none => .must "none"
        | some .null => .must "none"
        | some v =>
          match expectUint v with
          | .must x => if x ≤ (2 ^ 256 - 37) / 2 then .must (pad64 x) else .may (pad64 x)
          | .may x => .may (pad64 x)
          | .reject => .reject
      some [.must "legacy", chain, uint "nonce", uint "gasPrice", uint "gas", to, uint "value", data]
  | _ => none

def judgeTxParse (input : Bytes) (resp : String) : Verdict :=
  match Json.parseRaw input with
  | none => .skip     -- not JSON: covered by the correspondence only
  | some raw =>
    -- documents with duplicate keys are left to the correspondence check
    let dup := match raw, Json.dedup raw with
      | .obj a, .obj b => a.length != b.length
      | _, _ => false
    if dup then .skip else
    match expectTx (Json.dedup raw) with
    | none => expect (resp == "err") "a document that is not an object must be refused"
    | some exps =>
      if exps.any (fun e => match e with | .reject => true | _ => false) then
        expect (resp == "err") "a field that does not denote a value of its type (negative, fractional, ≥ 2^256, empty, malformed) must be refused"
      else
        let want := "ok " ++ " ".intercalate (exps.map fun e => match e with | .must s => s | .may s => s | .reject => "")
        let anyMay := exps.any fun e => match e with | .may _ => true | _ => false
        if resp == want then .holds
        else if anyMay && resp == "err" then .holds
        else .fails "accepted fields must carry exactly the integers / bytes written (or, for spellings the statement leaves open, be refused)"

end Hdw.Driver.Judge

namespace Hdw.Driver.Judge
open Hdw Hdw.Driver Hdw.Json

/-- C06 / C11 judge for `sign transaction`: `d` is the signer's key (from the account), the
transaction fields come from the document.  Checks, on the implementation's output only:
the guard; the bytes strictly decode to exactly the fields of the document with a tail
`(v | yParity, r, s)`; `v = 35 + 2c + yParity` / `27 + yParity` / `yParity` as integers; the
signature verifies and recovers to the signer over keccak256 of the EIP-155/2718 signing payload
(which ends in `(c, 0, 0)` for legacy with chain id and starts with `c` for typed). -/
def judgeSignTx (d : Nat) (json : Bytes) (sigOnly allow : Bool) (resp : String) : Verdict :=
  match Hdw.Tx.parse json with
  | .ok tx =>
    let missing := match tx with | .legacy none .. => true | _ => false
    if missing && !allow then expect (resp == "err") "legacy transaction without chain id must be refused unless the override flag is given"
    else
      let payload := Spec.Tx.signingPayload tx
      let z := beVal (Prim.keccak256 payload)
      let Q := Prim.Secp.mulG d
      let n := Prim.Secp.n
      let checkSig (r s par : Nat) : Verdict :=
        if !(1 ≤ r && r < n && 1 ≤ s && s ≤ n / 2 && par ≤ 1) then .fails "signature scalars out of range"
        else if !(Spec.Ecdsa.verify secpCurve Q z r s) then .fails "signature does not verify over keccak256 of the signing payload (chain id bound into what is signed)"
        else if Spec.Ecdsa.recover secpCurve z r s (par == 1) != some Q then .fails "sender recovered from (payload, r, s, parity) is not the signer"
        else .holds
      match resp.splitOn " " with
      | ["ok", out] =>
        match unhex out with
        | none => .fails "unparsable"
        | some o =>
          let text := (String.fromUTF8? ⟨o.toArray⟩).getD ""
          if !(text.startsWith "0x" && text.endsWith "\n") then .fails "output must be 0x-hex and a newline" else
          let hexPart := ((text.drop 2).dropEnd 1).toString
          match hexDecode hexPart.toList with
          | none => .fails "output is not hex"
          | some bytes =>
            if sigOnly then
              if bytes.length != 65 then .fails "signature must be 65 bytes" else
              let r := beVal (bytes.take 32); let s := beVal ((bytes.drop 32).take 32); let v := (bytes.drop 64).headD 0
              if v != 27 && v != 28 then .fails "printed v must be 27 or 28" else checkSig r s (v.toNat - 27)
            else
              match Spec.Tx.decode bytes with
              | none => .fails "strict decoder rejects the signed bytes"
              | some dec =>
                let tail : Option Spec.Tx.SigTriple := match dec with
                  | .legacy _ _ _ _ _ _ t => t
                  | .eip2930 _ _ _ _ _ _ _ _ t => t
                  | .eip1559 _ _ _ _ _ _ _ _ _ t => t
                match tail with
                | none => .fails "signature tail missing"
                | some t =>
                  if dec != Spec.Tx.expected tx (some t) then .fails "decoded fields differ from the document"
                  else
                    let par? : Option Nat := match tx with
                      | .legacy (some c) .. => if t.v == 35 + 2 * c then some 0 else if t.v == 36 + 2 * c then some 1 else none
                      | .legacy none .. => if t.v == 27 then some 0 else if t.v == 28 then some 1 else none
                      | _ => if t.v ≤ 1 then some t.v else none
                    match par? with
                    | none => .fails "v is not 35 + 2·chainId + yParity (legacy), 27/28 (no chain id) or yParity (typed) as an integer"
                    | some par => checkSig t.r t.s par
      | _ => .fails "signing an accepted transaction must succeed"
  | _ => expect (resp == "err") "transaction that does not parse must be refused"

/-- `hash transaction [--signature TEXT]` (C15 interop, C06): without a signature the output is keccak256 of the signing
payload; with a text denoting a signature (grammar of C15) it is keccak256 of the signed payload with exactly that
(r, s, parity) — for every kind, the pre-EIP-155 legacy form included, since the command has no guard option.  A text that
denotes no signature, or a document that is not a transaction, is an ordinary error. -/
def judgeCliHashTx (json : Bytes) (sig : Option String) (resp : String) : Verdict :=
  let sigDen : Option (Option (Nat × Nat × Nat)) := match sig with
    | none => some none
    | some text =>
      let body := if text.startsWith "0x" then (text.drop 2).toString else text
      if body.length == 130 then
        match hexNat? (body.take 64).toString, hexNat? ((body.drop 64).take 64).toString, hexNat? (body.drop 128).toString with
        | some r, some s, some v =>
          if (v == 27 || v == 28) && 0 < r && r < secpN && 0 < s && s < secpN then some (some (r, s, v - 27)) else none
        | _, _, _ => none
      else none
  match sigDen with
  | none => expect (resp == "err") "a --signature text that does not denote a signature must be an ordinary error"
  | some σ =>
    match Hdw.Tx.parse json with
    | .ok tx =>
      let payload := match σ with
        | none => Spec.Tx.signingPayload tx
        | some (r, s, p) => Spec.Tx.signedPayload tx p r s
      let vFits : Bool := match σ, tx with
        | some (_, _, p), .legacy (some c) .. => decide (35 + 2 * c + p < 2 ^ 256)
        | _, _ => true
      if vFits then judgeCliDigest (Prim.keccak256 payload) resp
      else expect (resp == "err") "v does not fit 256 bits: ordinary error"
    | .err _ => expect (resp == "err") "not a transaction document: ordinary error"
    | .panic _ => .skip

end Hdw.Driver.Judge
