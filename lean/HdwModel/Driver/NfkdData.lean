/- Loads the NFKD table (data/nfkd_table.tsv) for the driver; Hangul is arithmetic. -/
import HdwModel.Model.Nfkd
import Std.Data.HashMap

namespace Hdw.Driver

def hangulDecomp (cp : Nat) : List Nat :=
  let s := cp - 0xAC00
  let l := 0x1100 + s / 588
  let v := 0x1161 + (s % 588) / 28
  let t := s % 28
  if t == 0 then [l, v] else [l, v, 0x11A7 + t]

def parseNfkdTable (text : String) : Std.HashMap Nat (Nat × List Nat) := Id.run do
  let mut m : Std.HashMap Nat (Nat × List Nat) := {}
  for line in text.splitOn "\n" do
    if line.startsWith "#" || line.isEmpty then continue
    match line.splitOn "\t" with
    | [cp, ccc, d] =>
      match cp.toNat?, ccc.toNat? with
      | some cp, some ccc => m := m.insert cp (ccc, (d.splitOn " ").filterMap String.toNat?)
      | _, _ => pure ()
    | _ => pure ()
  return m

def mkNfkdTable (m : Std.HashMap Nat (Nat × List Nat)) : NfkdTable where
  decomp := fun c =>
    let cp := c.toNat
    if 0xAC00 ≤ cp ∧ cp ≤ 0xD7A3 then (hangulDecomp cp).map Char.ofNat
    else match m[cp]? with
      | some (_, d) => d.map Char.ofNat
      | none => [c]
  ccc := fun c => match m[c.toNat]? with
    | some (k, _) => k
    | none => 0

end Hdw.Driver
