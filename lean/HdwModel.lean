import HdwModel.Prim.Sha256
import HdwModel.Prim.Sha512
import HdwModel.Prim.Keccak
import HdwModel.Prim.Hmac
import HdwModel.Prim.Secp256k1
import HdwModel.Model.Basic
