#!/usr/bin/env python3
"""Check orchestrator (DESIGN.md §6).

  python3 check.py <Cnn> [--tier quick|thorough]
  python3 check.py --replay <path>
  python3 check.py --setup            (build everything once)

Exit 0: property held on everything explored.  Exit 1 + a line
`VIOLATION property=<id> replay=<path>`: violation.  Exit 2: infrastructure
failure (build error) -- never reported as a violation.
"""
import argparse
import importlib
import json
import os
import sys
import time

sys.path.insert(0, os.path.dirname(os.path.abspath(__file__)))
from vlib import core  # noqa: E402


def main():
    ap = argparse.ArgumentParser()
    ap.add_argument("prop", nargs="?")
    ap.add_argument("--tier", default=os.environ.get("VERIF_TIER", "quick"))
    ap.add_argument("--replay")
    ap.add_argument("--setup", action="store_true")
    ap.add_argument("--no-build", action="store_true", help="(debug) skip builds")
    args = ap.parse_args()

    if args.setup:
        return core.setup()
    if args.replay:
        return core.replay(args.replay)
    if not args.prop:
        ap.error("property id required")
    tier = args.tier if args.tier in ("quick", "thorough") else "quick"
    seed = int(os.environ.get("VERIF_SEED", "20260926"))
    mod = importlib.import_module("vlib.props." + args.prop.lower())
    return core.run_check(mod, tier, seed, no_build=args.no_build)


if __name__ == "__main__":
    sys.exit(main())
