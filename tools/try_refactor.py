#!/usr/bin/env python3
"""Apply a behaviour-preserving refactor patch to /repo, run every quick check, undo.
   tools/try_refactor.py <name> <patch.diff>   -> records /verif/seeded/refactors/<name>.json"""
import json, os, shutil, subprocess, sys, time
def sh(cmd, cwd=None, timeout=7200):
    p = subprocess.run(cmd, cwd=cwd, shell=True, stdout=subprocess.PIPE, stderr=subprocess.STDOUT, text=True, timeout=timeout, env=dict(os.environ, CARGO_NET_OFFLINE="true"))
    return p.returncode, p.stdout
name, patch = sys.argv[1], sys.argv[2]
checks = sys.argv[3:] or ["C%02d" % i for i in range(1, 21)]
assert sh("git status --porcelain", cwd="/repo")[1].strip() == ""
os.makedirs("/verif/seeded/refactors", exist_ok=True)
shutil.copy(patch, "/verif/seeded/refactors/%s.diff" % name)
rc, out = sh("git apply %s" % patch, cwd="/repo"); assert rc == 0, out
shutil.copytree("/verif/evidence", "/verif/.cache/evidence.bak", dirs_exist_ok=True)
res = {}
try:
    rc, out = sh("cargo test --workspace --no-fail-fast --offline 2>&1 | grep -E '^test result'", cwd="/repo")
    res["baseline_tests"] = out.strip().splitlines()
    for c in checks:
        t0 = time.time()
        rc, out = sh("python3 check.py %s --tier quick" % c, cwd="/verif")
        last = [l for l in out.strip().splitlines() if l.startswith(("VIOLATION", c))]
        res[c] = {"exit": rc, "output": last, "wall_s": round(time.time() - t0, 1)}
        print(c, rc, last[-1] if last else out[-200:])
finally:
    sh("git checkout -- .", cwd="/repo")
    shutil.copytree("/verif/.cache/evidence.bak", "/verif/evidence", dirs_exist_ok=True)
res["false_alarms"] = [c for c in checks if res.get(c, {}).get("exit") != 0]
json.dump(res, open("/verif/seeded/refactors/%s.json" % name, "w"), indent=1)
print("false alarms:", res["false_alarms"])
