#!/usr/bin/env python3
"""Chooses (key, digest) pairs whose RFC 6979 signature has a short r or s (leading zero bytes) — inputs only, judged by the
Lean driver like every other case.  Writes data/c05_short_scalars.txt: <key hex> <digest hex> <r bytes> <s bytes>."""
import sys, hmac, hashlib, random
from multiprocessing import Pool
sys.path.insert(0, '/verif')
from vlib import secp
N = secp.N


def rfc6979(d, h1):
    x = d.to_bytes(32, 'big')
    V, K = b'\x01' * 32, b'\x00' * 32
    K = hmac.new(K, V + b'\x00' + x + h1, hashlib.sha256).digest(); V = hmac.new(K, V, hashlib.sha256).digest()
    K = hmac.new(K, V + b'\x01' + x + h1, hashlib.sha256).digest(); V = hmac.new(K, V, hashlib.sha256).digest()
    while True:
        V = hmac.new(K, V, hashlib.sha256).digest()
        k = int.from_bytes(V, 'big')
        if 1 <= k < N:
            return k
        K = hmac.new(K, V + b'\x00', hashlib.sha256).digest(); V = hmac.new(K, V, hashlib.sha256).digest()


def work(seed):
    rng = random.Random(seed)
    out = []
    for _ in range(1200):
        d = rng.choice([rng.randrange(1, N), rng.randrange(1, 2 ** 32), 0x4f3edf983ac636a65a842ce7c78d9aa706d3b113bce9c46f30d7d21715b23b1d])
        z = rng.randrange(N)
        k = rfc6979(d, z.to_bytes(32, 'big'))
        R = secp.mul(k)
        r = R[0] % N
        s = pow(k, -1, N) * (z + r * d) % N
        s = min(s, N - s)
        if r < 2 ** 248 or s < 2 ** 248:
            out.append("%064x %064x %d %d" % (d, z, (r.bit_length() + 7) // 8, (s.bit_length() + 7) // 8))
        else:
            rb, sb = r.to_bytes(32, "big"), s.to_bytes(32, "big")
            zr = [i for i in range(32) if rb[i] == 0]
            zs = [i for i in range(32) if sb[i] == 0]
            if zr or zs:
                out.append("%064x %064x zero-r:%s zero-s:%s" % (d, z, ".".join(map(str, zr)) or "-", ".".join(map(str, zs)) or "-"))
    return out


if __name__ == "__main__":
    with Pool(16) as p:
        res = [l for o in p.map(work, range(100, 116)) for l in o]
    open('/verif/data/c05_short_scalars.txt', 'w').write("\n".join(sorted(res)) + "\n")
    print(len(res))
