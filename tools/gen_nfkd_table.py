#!/usr/bin/env python3
"""Writes data/nfkd_table.tsv from python's unicodedata: one line per code point that has a
non-zero canonical combining class or a non-trivial full compatibility decomposition
(Hangul syllables excluded: decomposed arithmetically).  Format: cp<TAB>ccc<TAB>cp cp ...
Also writes data/unassigned.txt ranges are not needed: generators draw from assigned code points."""
import sys, unicodedata
out = []
for cp in range(0x110000):
    if 0xD800 <= cp <= 0xDFFF or 0xAC00 <= cp <= 0xD7A3:
        continue
    ch = chr(cp)
    ccc = unicodedata.combining(ch)
    d = unicodedata.normalize("NFKD", ch)
    if ccc != 0 or d != ch:
        out.append("%d\t%d\t%s" % (cp, ccc, " ".join(str(ord(c)) for c in d)))
with open(sys.argv[1], "w") as f:
    f.write("# unicodedata %s\n" % unicodedata.unidata_version)
    f.write("\n".join(out) + "\n")
print(len(out), "entries, Unicode", unicodedata.unidata_version)
