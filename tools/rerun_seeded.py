#!/usr/bin/env python3
"""tools/rerun_seeded.py <name> <check id> [...]: apply /verif/seeded/<name>/patch.diff to /repo, run the named quick checks,
undo the patch, restore evidence/.  Prints one line per check; exit 0 iff at least one check reported a violation.
(The worktree-free sibling of try_seeded.py: for changes that were already confirmed.)"""
import json, os, shutil, subprocess, sys, time

def sh(cmd, cwd=None, timeout=3600):
    p = subprocess.run(cmd, cwd=cwd, shell=True, stdout=subprocess.PIPE, stderr=subprocess.STDOUT, text=True, timeout=timeout,
                       env=dict(os.environ, CARGO_NET_OFFLINE="true"))
    return p.returncode, p.stdout

name, checks = sys.argv[1], sys.argv[2:]
patch = "/verif/seeded/%s/patch.diff" % name
assert sh("git status --porcelain", cwd="/repo")[1].strip() == "", "/repo not clean"
rc, out = sh("git apply %s" % patch, cwd="/repo")
assert rc == 0, out
shutil.copytree("/verif/evidence", "/verif/.cache/evidence.bak", dirs_exist_ok=True)
det = []
try:
    for c in checks:
        t0 = time.time()
        rc, out = sh("python3 check.py %s --tier quick" % c, cwd="/verif")
        lines = [l for l in out.strip().splitlines() if l.startswith(("VIOLATION", c))]
        print(name, c, "->", rc, " | ".join(l[:260] for l in lines[-2:]) if lines else out[-300:], "(%.0fs)" % (time.time() - t0), flush=True)
        if rc == 1:
            det.append(c)
finally:
    sh("git checkout -- .", cwd="/repo")
    assert sh("git status --porcelain", cwd="/repo")[1].strip() == ""
    shutil.copytree("/verif/.cache/evidence.bak", "/verif/evidence", dirs_exist_ok=True)
print("detected by:", det)
sys.exit(0 if det else 1)
