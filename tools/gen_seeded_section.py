#!/usr/bin/env python3
"""Regenerates DESIGN.md §13.5 (seeded changes table) from seeded/*/meta.json."""
import json, glob, os, re
rows = []
n_first = n_total = 0
for d in sorted(glob.glob('/verif/seeded/C*')):
    m = json.load(open(d + '/meta.json'))
    name = os.path.basename(d)
    det = ", ".join(m.get("detected_by") or [])
    after = m.get("after_strengthening", {})
    needs = (m.get("needs") or m.get("summary") or "").replace("\n", " ").replace("|", "/")
    if len(needs) > 200:
        needs = needs[:197] + "…"
    n_total += 1
    n_first += 1 if det else 0
    rows.append("| `%s` | %s | %s | %s |" % (name, needs, det if det else "— (missed)", (after.get("note", "") if after else "").replace("|", "/")))
refs = []
for f in sorted(glob.glob('/verif/seeded/refactors/*.json')):
    r = json.load(open(f))
    refs.append("* `%s` (%s): false alarms: %s" % (os.path.basename(f)[:-5], "baseline tests green" if all(" 0 failed" in l for l in r.get("baseline_tests", [])) else "tests?", r.get("false_alarms") or "none"))
sec = '''### 13.5 Seeded changes: which checks catch which

%d changes were produced by independent sub-agents, in rounds of one per property, each agent being
given only the text of one property (from round 2 on also a one-paragraph summary of the changes
already tried for it, so as not to repeat them) and a scratch worktree — nothing from /verif. Each
compiles, passes the 33 baseline tests, and comes with a demonstration that fails with the change and
passes without it; each was re-confirmed by `tools/try_seeded.py` (build, baseline tests green, demo
fails / passes) before being kept under `seeded/<name>/` (patch.diff, demo, meta.json with the
confirmation and the check results). None is ever committed to /repo. "Detected by (first run)"
lists the quick-tier checks that exited 1 with the patch applied *before* any strengthening;
%d of %d were caught on first contact, every miss was closed by widening a generator or adding an
op/judge, and all %d are detected now.

| Seeded change | Needs, to manifest | Detected by (first run) | Strengthening done |
|---|---|---|---|
%s

Lessons (all about *generator coverage and observables*, none about the models or theorems):
a character class that only occurred next to characters masking it (C02); leading/trailing
whitespace in free-text options (C16); multi-byte characters across the fixed byte offsets of a text
of the right byte length (C17/C15); a sign character accepted by Rust's integer parsers, together with
an observable (error vs. error) that could not tell acceptance from refusal — fixed by the op
`cli.prefix_parse` (C18); fault injection that covered only the sequential path (C12); values whose
*formatting* differs only for 1 key in 16 (C04b: index sweeps); collections that never contained
duplicates (C06b); strings that were always NFC (C08b); command-line routes and input channels
that were only exercised with small, valid inputs (C10b, C16b, C20b: `vlib/routes.py` now re-runs a
sample of every library-level property's cases through each sub-command that reaches the same
code, and large inputs go through stdin and file); defects placed late in long inputs (C19b);
prefixes stripped repeatedly (C14b, C19: `perturb()` adds layout perturbations of valid texts);
and injected-malformed documents that were accidentally invalid elsewhere too, masking the
injected defect (C13b).  Round 3 (the agents were told what had been tried, so the changes became
more remote): tokens that a *lenient* lookup maps back to the right word — case, full-width,
ligatures, roman numerals, superscripts (C01c: near-miss tokens keep the checksum valid); paths
of 256+ components (C03c); 1 key in 256 whose X starts with 0x04 (C04c: walk k·G until every first
byte of X and Y has occurred); hidden state across calls (C05c: a cache keyed by the digest only —
closed twice, in the op and by the generic *history-independence probe*: every in-process line is
re-run by a second process in reversed order and must answer identically); the domain type as
primary type (C08c); an undefined type no value reaches (C09c); chain ids at every bit boundary
(C11c: sweep 2^k-1, 2^k, 2^k+1 for k = 0..255); a vanity result from a later request (C12c: spec
judge for `cli.new_vanity`, which also gives C18 judged witnesses); declared array sizes near 2^64
(C17c); data starting with a byte-order mark (C19c: `vlib/magic.py`, special byte sequences at the
start / end / inside of every binary input); JSON `\\uXXXX` escapes in type strings (C20c:
`vlib/jsonspell.py`, equivalent re-spellings of documents).  Rounds 4–6 (first-contact detection
12, 16 and 16 of 20): state kept between calls and per thread (C10d, C04d, C08d, C03e, C20f: op `seq`
and the history search that turns "fails only after other inputs" into a replayable sequence);
inputs that arrive in pieces (C19d: stdin in several writes, named pipes) or whose `stat` size is not
their length (C10e); the errno of a failing entropy source (C12d); exact byte lengths around a
sanity bound (C01d); kind selection under mixed pricing fields (C06d); guards that look at one more
field than they should (C11d, C11e); texts with stacked prefixes and signs (C13d, C20e); the right
word's lexical relatives (C01f); 31+ combining marks (C02f); the text of a key instead of the key
(C04f); repeated member names (C17f); line feeds at buffer-size distances in *output* (C19f); the
first candidate of a search and request sizes (C18d, C18f); boundary values on the command-line
route when only the library route had them (C14e, C05f, C14f, C15f).  Round 7 (16 of 20): a side
effect inside `debug_assert!` that only an ordinary release build shows (C04g: build-profile probe); a
value that remembers what it was asked first (C02g: value re-use probe); an endless loop (C17g:
watchdog); a changed public signature that stopped the harness from compiling (C12g); a `+` that
`from_str_radix` accepts in place of a hex digit (C19g: digit-substitution family); repeated member
names with surplus keys (C09g).  Rounds 8–9 (18 of 20 and 15 of 19): a salt written into a 256-byte slice
(C02h: long passphrases); a fast path that stops after five members (C20h); an option that started
to listen to an environment variable (C11i: ambient-environment probe); Unicode look-alikes folded
into path syntax (C14i); a hand-written `Clone` that drops the checksum byte (C01i/C12i: clone
probes, empty-prefix vanity searches with worker threads); the passphrase `-` read from standard
input (C02i: sentinel-like passphrases).  Round 10 (17 of 20): recovery ids 2 and 3, whose upper bit
must play no part in `v` (C11j); declared domain member names that only *look* like the standard ones
while the value is keyed by the standard name (C20j); progress dots on standard output that appear only
after a worker has passed a thousand candidates (C18j: 3- and 4-digit searches with few workers, standard
output must be exactly the phrase line).  Round 11 (14 of 20, the agents by now reaching for rarer
mechanisms): a Latin-1 fallback that turns the lone bytes 0x85 / 0xA0 into white space (C19k: every lone
high byte); a bare-domain document whose message is never hashed (C09k); dependencies ordered by their
encoded strings, wrong only for `Safe$Module` next to `Safe` (C08k: name-order family); `_` rewritten to
`-` inside `--password=VALUE` (C16k: value styles x every printable character); stale buffer contents
printed after a transaction larger than 32 KiB (C07k: large outputs); a seed of ASCII hex digits decoded
"for convenience" (C03k: binary data that looks like text, applied to seeds, keys, digests, entropy, RLP
strings).  Round 12 (17 of 20): an out-of-range `uint8` accepted when written as a zero-padded 32-byte
word (C09m: padded spellings in C09 and C13); the candidate phrase named in the error text of a failed vanity
search (C12m: the runner reads stderr of `new`); a second low-s "normalisation" with one mistyped digit in
its half-order constant, wrong for one signature in 2^19 (C05m: a corpus of signatures whose `s` lies within
2^-8 .. 2^-24 of n/2, found by signing with the code itself).  Rounds 13–14 (18 and 17 of 20): the
text `"true"` for a `bool` member (C09n); a vanity passphrase trimmed, or read from standard input when it is `-`
(C18n, C18p: blank-edged and sentinel-like vanity passphrases); control characters 0x10..0x19 that a case fold
with `| 0x20` turns into digits (C17p: the prefix sweep takes every byte value); quotes stripped by `FromStr`
but not by `from_phrase` (C01p: the in-process op runs both entry points and requires one verdict).  Round 14
also brought the first changes to data and constants (a respelled word of the embedded list, C12p) — the
occasion for registering the table theorems under C12 and for the source tie of §13.6.  Two things held throughout:
every miss was a missing *input family or observable*, never a wrong theorem or model, and every
family added for one property was then applied to the others it fits.

**Behaviour-preserving refactors (false-alarm test).** Sub-agents rewrote the code without
changing behaviour, twice: round 1 (25 + 13 + 20 + 25 rewrites; re-run after every widening of the
checks) and round 2 (`round2-A/B/D`: 57 + 37 + 52 rewrites, each verified by its author with a
differential harness against the original; notes in `seeded/refactors/*.notes.md`). Round 1: the mnemonic bit packing re-done over a 33-byte bit
string, `binary_search` replaced by `partition_point`, `for_index` built without parsing, the
EIP-712 work-list turned from depth-first to breadth-first, the domain scan rewritten with a cursor,
`leading_zeros/8` replaced by a scan for the first non-zero byte, error messages reworded, the sign
command restructured, …). All 20 quick checks were run against each patch:
%s

One more change was made by hand to test the regenerated word table: replacing `zoo` by `zop`
in english.txt passes the baseline tests; `Props.C01.table_is_bip39` (kernel equality with the
committed reference list) stops checking and the correspondence reports 26 concrete phrases
(valid BIP-39 phrases now refused / non-BIP-39 phrases now accepted).

A response `panic` / `signal` / `timeout` from the implementation is always reported with the
input as witness (never as `no-failing-input-found`), whatever op-specific judge exists.

''' % (n_total, n_first, n_total, n_total, "\n".join(rows), "\n".join(refs))
p = '/verif/DESIGN.md'
s = open(p).read()
a = s.index("### 13.5 Seeded changes")
b = s.index("### 13.6 ") if "### 13.6 " in s else s.index("## History of corrections")
s = s[:a] + sec + s[b:]
open(p, 'w').write(s)
print(n_total, n_first)
