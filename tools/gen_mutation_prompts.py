#!/usr/bin/env python3
"""tools/gen_mutation_prompts.py <round>: writes /tmp/prop<round>_Cnn.txt — the property text plus one-paragraph summaries
of the seeded changes already kept for it (so that a new agent does not repeat them).  Nothing else from /verif goes in."""
import json, glob, os, sys
r = sys.argv[1]
for l in open("/verif/properties.jsonl"):
    p = json.loads(l)
    pid = p["id"]
    prev = []
    for d in sorted(glob.glob("/verif/seeded/%s*" % pid), key=lambda d: (len(os.path.basename(d).split("-")[0]), os.path.basename(d))):
        m = json.load(open(d + "/meta.json"))
        prev.append((m.get("summary") or "").replace("\n", " ")[:420])
    t = "Property %s — %s\n\nStatement: %s\n\nQuantifier: %s\n\nCode anchors: %s\n" % (pid, p["title"], p["statement"], (p["quantifier"]["text"] if isinstance(p["quantifier"], dict) else p["quantifier"]), ", ".join(p["anchors"]["files"]) if isinstance(p["anchors"], dict) else str(p["anchors"]))
    if prev:
        t += ("\nChanges ALREADY TRIED by others for this property (do NOT repeat any of them, and do not reuse their code site or mechanism; find a genuinely "
              "different way to break the property — think about other clauses of the statement, other functions/files among the anchors, the command-line glue vs "
              "the library, dependencies' API misuse, error paths, boundary arithmetic, concurrency, encodings, option/flag handling, rarely-taken branches, "
              "interactions between two options or two fields, state kept between calls, platform assumptions):\n")
        for i, s in enumerate(prev, 1):
            t += "  %d. %s\n" % (i, s)
    open("/tmp/prop%s_%s.txt" % (r, pid), "w").write(t)
print("written")
