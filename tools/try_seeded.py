#!/usr/bin/env python3
"""Confirm a seeded change delivered by a sub-agent and run the checks against it.

  tools/try_seeded.py <name> <worktree> <check id> [<check id> ...]

1. in the scratch worktree: with the change -> build, baseline tests green, demo FAILS;
   without the change -> demo PASSES (the change is re-applied afterwards);
2. copy SEEDED/{patch.diff,demo.*,meta.json} to /verif/seeded/<name>/;
3. apply the patch to /repo, run each named check (quick tier), undo with `git checkout -- .`;
4. record everything in /verif/seeded/<name>/meta.json.
"""
import json, os, shutil, subprocess, sys, time

def sh(cmd, cwd=None, timeout=3600):
    p = subprocess.run(cmd, cwd=cwd, shell=True, stdout=subprocess.PIPE, stderr=subprocess.STDOUT, text=True, timeout=timeout,
                       env=dict(os.environ, CARGO_NET_OFFLINE="true"))
    return p.returncode, p.stdout

name, wt, checks = sys.argv[1], sys.argv[2], sys.argv[3:]
sd = os.path.join(wt, "SEEDED")
meta = json.load(open(os.path.join(sd, "meta.json")))
demo = meta.get("demo_cmd") or "bash SEEDED/demo.sh"
demo = demo.split("   ")[0].split(" (")[0].strip()
if "cd " in demo and "&&" in demo:
    demo = demo.split("&&", 1)[1].strip() if demo.strip().startswith("cd ") else demo
conf = {}
# make sure the change is applied
rc, _ = sh("git apply --check -R SEEDED/patch.diff", cwd=wt)
if rc != 0:
    sh("git apply SEEDED/patch.diff", cwd=wt)
rc, out = sh("cargo build --offline 2>&1 | tail -2 && cargo build --offline --features verif-hooks 2>&1 | tail -1", cwd=wt)
conf["build_with_change"] = out.strip().splitlines()[-1] if out.strip() else ""
rc, out = sh("cargo test --workspace --no-fail-fast --offline 2>&1 | grep -E '^test result' ", cwd=wt)
conf["tests_with_change"] = out.strip().splitlines()
tests_green = all(" 0 failed" in l for l in conf["tests_with_change"]) and conf["tests_with_change"]
rc1, out1 = sh(demo, cwd=wt)
conf["demo_with_change_rc"] = rc1
conf["demo_with_change_tail"] = out1.strip().splitlines()[-4:]
sh("git apply -R SEEDED/patch.diff", cwd=wt)
sh("cargo build --offline 2>&1 | tail -1", cwd=wt)
rc2, out2 = sh(demo, cwd=wt)
conf["demo_without_change_rc"] = rc2
conf["demo_without_change_tail"] = out2.strip().splitlines()[-3:]
sh("git apply SEEDED/patch.diff", cwd=wt)
confirmed = bool(tests_green) and rc1 != 0 and rc2 == 0
conf["confirmed"] = confirmed
print("confirmed:", confirmed, "| tests:", conf["tests_with_change"], "| demo with:", rc1, "without:", rc2)
dst = os.path.join("/verif/seeded", name)
os.makedirs(dst, exist_ok=True)
for f in os.listdir(sd):
    if f.startswith(("patch", "demo", "meta")) or f.endswith((".rs", ".sh", ".py", ".json", ".txt")):
        shutil.copy(os.path.join(sd, f), os.path.join(dst, f))
results = {}
if confirmed:
    assert sh("git status --porcelain", cwd="/repo")[1].strip() == "", "/repo not clean"
    rc, out = sh("git apply %s" % os.path.join(dst, "patch.diff"), cwd="/repo")
    assert rc == 0, out
    shutil.copytree("/verif/evidence", "/verif/.cache/evidence.bak", dirs_exist_ok=True)  # evidence of mutant runs must not be kept
    try:
        for c in checks:
            t0 = time.time()
            rc, out = sh("python3 check.py %s --tier quick" % c, cwd="/verif", timeout=3600)
            lines = [l for l in out.strip().splitlines() if l.startswith(("VIOLATION", "KNOWN", c))]
            rep = None
            for l in lines:
                if l.startswith("VIOLATION"):
                    path = l.split("replay=")[1].split()[0]
                    try:
                        r = json.load(open(path))
                        rep = {"kind": r.get("kind"), "line": (r.get("case") or {}).get("line", "")[:300], "impl": (r.get("case") or {}).get("impl", "")[:200],
                               "model": (r.get("case") or {}).get("model", "")[:200], "judge": (r.get("case") or {}).get("judge", "")[:200], "detail": str(r.get("detail"))[:300]}
                    except Exception as e:
                        rep = {"error": str(e)}
            results[c] = {"exit": rc, "output": lines, "replay": rep, "wall_s": round(time.time() - t0, 1)}
            print(c, "->", rc, lines[-1] if lines else out[-300:])
    finally:
        sh("git checkout -- .", cwd="/repo")
        assert sh("git status --porcelain", cwd="/repo")[1].strip() == ""
        shutil.copytree("/verif/.cache/evidence.bak", "/verif/evidence", dirs_exist_ok=True)
meta["confirmation"] = conf
meta["checks_run"] = results
meta["detected_by"] = sorted(c for c, r in results.items() if r["exit"] == 1)
json.dump(meta, open(os.path.join(dst, "meta.json"), "w"), indent=1)
print("detected by:", meta["detected_by"])
