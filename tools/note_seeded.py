#!/usr/bin/env python3
"""tools/note_seeded.py <name> <checks,comma> <note>: record what was done after a seeded change was missed (or caught by a neighbour only)."""
import json, sys
name, det, note = sys.argv[1], sys.argv[2], sys.argv[3]
p = "/verif/seeded/%s/meta.json" % name
m = json.load(open(p))
m["after_strengthening"] = {"detected_by": det, "note": note}
m["detected_by_after_strengthening"] = det.split(",")
json.dump(m, open(p, "w"), indent=1, ensure_ascii=False)
