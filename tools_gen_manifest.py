#!/usr/bin/env python3
"""Regenerates MANIFEST.json from the table in vlib/manifest_table.py."""
import json, os, sys
sys.path.insert(0, os.path.dirname(os.path.abspath(__file__)))
from vlib.manifest_table import CLAIMED, NOT_YET

props = [json.loads(l) for l in open(os.path.join(os.path.dirname(os.path.abspath(__file__)), "properties.jsonl"))]
ids = [p["id"] for p in props]
checks = []
for pid in ids:
    if pid in CLAIMED:
        c = CLAIMED[pid]
        checks.append({
            "property_id": pid,
            "quick_cmd": "python3 check.py %s --tier quick" % pid,
            "thorough_cmd": "python3 check.py %s --tier thorough" % pid,
            "evidence_file": "/verif/evidence/%s.json" % pid,
            "replay_cmd_template": "python3 check.py --replay {path}",
            "engine": "lean4-model+correspondence",
            "level_claimed": {"category": "proof", "text": c["text"], "design_ref": "DESIGN.md §7 " + pid},
            "level_note": c["note"],
            "technique": c["technique"],
        })
na = [{"property_id": pid, "reason": NOT_YET.get(pid, "check not built yet (work in progress; see DESIGN.md §11)")}
      for pid in ids if pid not in CLAIMED]
m = {
    "version": 1,
    "setup_cmd": "python3 check.py --setup",
    "hooks": {
        "guard": "cargo feature verif-hooks",
        "enable": "--features verif-hooks (the harness crate depends on /repo with features = [\"verif-hooks\"])",
        "baseline_off_cmd": "cd /repo && cargo test --workspace --no-fail-fast --offline",
        "source_commits": ["d3a7d2f"],
        "add_only": True,
    },
    "engines": [{
        "name": "lean4-model+correspondence",
        "path": "/verif/lean, /verif/harness, /verif/check.py",
        "serves_properties": sorted(CLAIMED),
        "kind_free_text": "Hand-written executable Lean 4 model of hdwallet's logic with machine-checked theorems (lake build + #print axioms audit), tied to /repo's current tree by a differential correspondence check (Rust harness in-process + real CLI binary vs compiled Lean driver) and by regenerating the BIP-39 word table from source.",
    }],
    "checks": checks,
    "not_applicable": na,
    "notes": "See DESIGN.md. Known findings in known_findings.json.",
}
with open(os.path.join(os.path.dirname(os.path.abspath(__file__)), "MANIFEST.json"), "w") as f:
    json.dump(m, f, indent=1)
    f.write("\n")
print("claimed:", sorted(CLAIMED))
