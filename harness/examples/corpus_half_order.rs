//! tools: search (key, digest) pairs whose signature has `s` within 2^-bits of the half order n/2 (the low-s boundary),
//! i.e. the top `bits` bits of s are 0 followed by ones.  Used once to write /verif/data/c05_near_half_order.txt; the
//! pairs only CHOOSE inputs, the check judges every signature by the Lean model and spec.
//! usage: corpus_half_order <bits> <count> <threads> <seed>
use ethdigest::Digest;
use hdwallet::account::PrivateKey;
use std::sync::{atomic::{AtomicUsize, Ordering}, Arc};

fn main() {
    let a: Vec<String> = std::env::args().collect();
    let bits: u32 = a[1].parse().unwrap();
    let count: usize = a[2].parse().unwrap();
    let threads: u64 = a[3].parse().unwrap();
    let seed: u64 = a[4].parse().unwrap();
    let found = Arc::new(AtomicUsize::new(0));
    let mut hs = vec![];
    for t in 0..threads {
        let found = found.clone();
        hs.push(std::thread::spawn(move || {
            let mut x: u64 = seed.wrapping_mul(0x9E3779B97F4A7C15) ^ (t + 1).wrapping_mul(0xD1B54A32D192ED03);
            let mut next = move || { x ^= x << 13; x ^= x >> 7; x ^= x << 17; x };
            let mut kb = [0u8; 32];
            for i in 0..4 { kb[i * 8..i * 8 + 8].copy_from_slice(&next().to_be_bytes()); }
            kb[0] &= 0x7f;
            let key = PrivateKey::new(&kb).unwrap();
            while found.load(Ordering::Relaxed) < count {
                let mut d = [0u8; 32];
                for i in 0..4 { d[i * 8..i * 8 + 8].copy_from_slice(&next().to_be_bytes()); }
                let sig = key.try_sign(Digest(d)).unwrap();
                let s = sig.s();
                let top = s >> (256 - bits);
                if top == (ethnum::U256::ONE << (bits - 1)) - 1 {
                    if found.fetch_add(1, Ordering::Relaxed) < count {
                        println!("{} {} near-half:{}", hex::encode(kb), hex::encode(d), bits);
                    }
                }
            }
        }));
    }
    for h in hs { h.join().unwrap(); }
}
