/* LD_PRELOAD interposer for getentropy(3), used to inject the entropy the real binary sees
 * (C12, C18).  HDW_SHIM_STREAM: comma separated hex strings, one per call; "fail" = return -1 with errno EIO, "failN" = return -1 with errno N.
 * Calls beyond the end of the stream fail.  HDW_SHIM_LOG: file to which "<len>\n" is appended
 * for every call.  HDW_SHIM_REPEAT=1: after the stream is exhausted, pseudo-random bytes from a
 * counter-keyed xorshift are returned instead of failing (for searches of unknown length). */
#define _GNU_SOURCE
#include <errno.h>
#include <fcntl.h>
#include <stdio.h>
#include <stdlib.h>
#include <string.h>
#include <unistd.h>
#include <stdint.h>

static int counter = 0;

static int hexval(char c) {
    if (c >= '0' && c <= '9') return c - '0';
    if (c >= 'a' && c <= 'f') return c - 'a' + 10;
    if (c >= 'A' && c <= 'F') return c - 'A' + 10;
    return -1;
}

int getentropy(void *buffer, size_t len) {
    int idx = __atomic_fetch_add(&counter, 1, __ATOMIC_SEQ_CST);
    const char *logp = getenv("HDW_SHIM_LOG");
    if (logp) {
        int fd = open(logp, O_WRONLY | O_APPEND | O_CREAT, 0644);
        if (fd >= 0) {
            char line[64];
            int n = snprintf(line, sizeof line, "%zu\n", len);
            if (write(fd, line, n) < 0) { /* ignore */ }
            close(fd);
        }
    }
    const char *stream = getenv("HDW_SHIM_STREAM");
    const char *p = stream ? stream : "";
    for (int i = 0; i < idx && *p; i++) {
        const char *q = strchr(p, ',');
        if (!q) { p = p + strlen(p); break; }
        p = q + 1;
    }
    if (!stream || !*p) {
        const char *rep = getenv("HDW_SHIM_REPEAT");
        if (rep && *rep == '1') {
            uint64_t x = 0x9E3779B97F4A7C15ull * (uint64_t)(idx + 1) + 0x1234567;
            unsigned char *b = buffer;
            for (size_t i = 0; i < len; i++) {
                x ^= x << 13; x ^= x >> 7; x ^= x << 17;
                b[i] = (unsigned char)(x >> 32);
            }
            return 0;
        }
        errno = EIO;
        return -1;
    }
    if (strncmp(p, "fail", 4) == 0) {
        /* "fail" = EIO, "failN" = errno N */
        int n = atoi(p + 4);
        errno = n > 0 ? n : EIO;
        return -1;
    }
    unsigned char *b = buffer;
    for (size_t i = 0; i < len; i++) {
        int h = hexval(p[2 * i]);
        int l = h < 0 ? -1 : hexval(p[2 * i + 1]);
        if (h < 0 || l < 0) { errno = EIO; return -1; }
        b[i] = (unsigned char)(h * 16 + l);
    }
    return 0;
}
