//! Correspondence harness: executes line-protocol operations against the real
//! `hdwallet` library (current working tree of /repo, feature `verif-hooks`).
//!
//! Request:  `<op> <arg>...`   (byte-string arguments in hex, `-` = empty)
//! Response: `ok <field>...` | `err` | `panic`
//!
//! Every case runs under `catch_unwind`; output order equals input order.

use ethdigest::Digest;
use ethnum::U256;
use hdwallet::{
    account::{PrivateKey, Signature},
    hdk,
    message::EthereumMessage,
    mnemonic::{Language, Mnemonic},
    transaction::Transaction,
    typeddata::TypedData,
};
use std::{
    cell::RefCell,
    io::{self, BufRead, Write},
    panic::{self, AssertUnwindSafe},
    sync::{Arc, Mutex},
    thread,
};

// ---------------------------------------------------------------------------
// Entropy injection: the library calls the C symbol `getentropy`; defining it
// in this executable overrides libc's for the whole process.
// ---------------------------------------------------------------------------

thread_local! {
    /// (bytes to hand out or None = fail, log of request sizes)
    static ENTROPY: RefCell<(Option<Vec<u8>>, Vec<usize>, bool)> = RefCell::new((None, Vec::new(), false));
    /// errno reported by a failing request (EIO unless the case says otherwise)
    static ENTROPY_ERRNO: RefCell<i32> = RefCell::new(5);
}

extern "C" {
    fn __errno_location() -> *mut i32;
}

fn fail_with_errno() -> i32 {
    let n = ENTROPY_ERRNO.with(|e| *e.borrow());
    unsafe { *__errno_location() = n };
    -1
}

#[no_mangle]
pub unsafe extern "C" fn getentropy(buf: *mut u8, len: usize) -> i32 {
    ENTROPY.with(|e| {
        let mut e = e.borrow_mut();
        e.1.push(len);
        if !e.2 {
            // not armed: behave like a failing source so that nothing
            // un-injected can go unnoticed
            return fail_with_errno();
        }
        match &e.0 {
            Some(bytes) if bytes.len() >= len => {
                std::ptr::copy_nonoverlapping(bytes.as_ptr(), buf, len);
                let rest = bytes[len..].to_vec();
                e.0 = Some(rest);
                0
            }
            _ => fail_with_errno(),
        }
    })
}

fn arm_entropy(bytes: Option<Vec<u8>>) {
    ENTROPY.with(|e| *e.borrow_mut() = (bytes, Vec::new(), true));
}

fn disarm_entropy() -> Vec<usize> {
    ENTROPY.with(|e| {
        let mut e = e.borrow_mut();
        e.2 = false;
        e.0 = None;
        std::mem::take(&mut e.1)
    })
}

// ---------------------------------------------------------------------------

type R = Result<Vec<String>, String>;

fn unhex(s: &str) -> Result<Vec<u8>, String> {
    if s == "-" {
        return Ok(Vec::new());
    }
    hex::decode(s).map_err(|e| format!("harness: bad hex arg: {e}"))
}

fn hx(b: impl AsRef<[u8]>) -> String {
    let b = b.as_ref();
    if b.is_empty() {
        "-".to_string()
    } else {
        hex::encode(b)
    }
}

fn utf8(s: &str) -> Result<String, String> {
    String::from_utf8(unhex(s)?).map_err(|e| format!("harness: bad utf8 arg: {e}"))
}

fn e<T: std::fmt::Display>(x: T) -> String {
    format!("{x}")
}

fn u256_hex(v: U256) -> String {
    hex::encode(v.to_be_bytes())
}

fn digest_from(b: &[u8]) -> Result<Digest, String> {
    let a: [u8; 32] = b.try_into().map_err(|_| "harness: digest must be 32 bytes".to_string())?;
    Ok(Digest(a))
}

fn tx_fields(tx: &Transaction) -> Vec<String> {
    let al = |l: &hdwallet::transaction::accesslist::AccessList| -> String {
        if l.0.is_empty() {
            return "-".into();
        }
        l.0.iter()
            .map(|(a, slots)| {
                let mut s = hex::encode(&**a);
                for slot in slots {
                    s.push(':');
                    s.push_str(&hex::encode(slot.0));
                }
                s
            })
            .collect::<Vec<_>>()
            .join(",")
    };
    let to = |t: &Option<ethaddr::Address>| match t {
        Some(a) => hex::encode(&**a),
        None => "none".into(),
    };
    match tx {
        Transaction::Legacy(t) => vec![
            "legacy".into(),
            match t.chain_id {
                Some(c) => u256_hex(c),
                None => "none".into(),
            },
            u256_hex(t.nonce),
            u256_hex(t.gas_price),
            u256_hex(t.gas),
            to(&t.to),
            u256_hex(t.value),
            hx(&t.data),
        ],
        Transaction::Eip2930(t) => vec![
            "eip2930".into(),
            u256_hex(t.chain_id),
            u256_hex(t.nonce),
            u256_hex(t.gas_price),
            u256_hex(t.gas),
            to(&t.to),
            u256_hex(t.value),
            hx(&t.data),
            al(&t.access_list),
        ],
        Transaction::Eip1559(t) => vec![
            "eip1559".into(),
            u256_hex(t.chain_id),
            u256_hex(t.nonce),
            u256_hex(t.max_priority_fee_per_gas),
            u256_hex(t.max_fee_per_gas),
            u256_hex(t.gas),
            to(&t.to),
            u256_hex(t.value),
            hx(&t.data),
            al(&t.access_list),
        ],
    }
}

fn sig_fields(s: &Signature) -> Vec<String> {
    vec![u256_hex(s.r()), u256_hex(s.s()), s.y_parity().to_string()]
}

fn run_op(line: &str) -> R {
    let parts: Vec<&str> = line.split(' ').collect();
    let arg = |i: usize| -> Result<&str, String> {
        parts.get(i).copied().ok_or_else(|| format!("harness: missing arg {i}"))
    };
    match parts[0] {
        "mn.parse" => {
            let phrase = utf8(arg(1)?)?;
            // the other entry point (`FromStr`, what clap and `str::parse` use) must treat the text exactly as `from_phrase` does
            let via_from_str = phrase.parse::<Mnemonic>();
            let direct = Mnemonic::from_phrase(&phrase);
            match (&via_from_str, &direct) {
                (Ok(a), Ok(b)) if a.to_phrase() == b.to_phrase() => {}
                (Err(_), Err(_)) => {}
                _ => return Ok(vec!["impure:from_str-and-from_phrase-disagree-on-this-text".into()]),
            }
            let m = direct.map_err(e)?;
            let printed = m.to_phrase();
            // a copy of the value is the same value: it prints the same and has the same length (and printing twice too)
            let copy = m.clone();
            if copy.to_phrase() != printed || copy.to_string() != m.to_string() || copy.mnemonic_length() != m.mnemonic_length()
                || m.to_phrase() != printed || copy.clone().to_phrase() != printed
            {
                return Ok(vec!["impure:a-clone-of-the-mnemonic-prints-differently".into()]);
            }
            // entropy is not public outside tests; recover it through the hash-free
            // route: the printed phrase determines it, and `mn.parse` on the Lean side
            // returns the same triple, so compare printed form and length only here,
            // plus the seed-independent Display.
            Ok(vec![hx(printed.as_bytes()), m.mnemonic_length().to_string(), hx(m.to_string().as_bytes())])
        }
        "mn.seed" => {
            let phrase = utf8(arg(1)?)?;
            let pass = utf8(arg(2)?)?;
            let m = Mnemonic::from_phrase(&phrase).map_err(e)?;
            let a = m.seed(&pass);
            // a value is asked more than once: the seed depends on (words, passphrase) only — not on what this value, or
            // a clone of it, was asked before
            let other = format!("{pass}\u{e9}x");
            let b = m.seed(&other);
            let b_fresh = Mnemonic::from_phrase(&phrase).map_err(e)?.seed(&other);
            let c = m.clone().seed(&pass);
            let d = m.seed("");
            let d_fresh = Mnemonic::from_phrase(&phrase).map_err(e)?.seed("");
            let p1 = m.to_phrase();
            let p2 = m.to_phrase();
            if b[..] != b_fresh[..] || c[..] != a[..] || d[..] != d_fresh[..] || p1 != p2 {
                return Ok(vec!["impure:seed-of-a-reused-mnemonic-value-differs-from-a-fresh-one".into()]);
            }
            Ok(vec![hx(&a[..])])
        }
        "mn.random" => {
            // mn.random <words> <entropy-hex | fail>
            let words: usize = arg(1)?.parse().map_err(e)?;
            // `fail` = every request fails with EIO; `failN` = with errno N
            let inject = match arg(2)? {
                f if f.starts_with("fail") => {
                    let n: i32 = if f.len() > 4 { f[4..].parse().map_err(|_| "harness: bad errno".to_string())? } else { 5 };
                    ENTROPY_ERRNO.with(|e| *e.borrow_mut() = n);
                    None
                }
                h => Some(unhex(h)?),
            };
            arm_entropy(inject);
            let r = panic::catch_unwind(AssertUnwindSafe(|| Mnemonic::random(Language::English, words)));
            let log = disarm_entropy();
            let log_s = if log.is_empty() {
                "-".to_string()
            } else {
                log.iter().map(|n| n.to_string()).collect::<Vec<_>>().join(",")
            };
            match r {
                Ok(Ok(m)) => {
                    if m.clone().to_phrase() != m.to_phrase() {
                        return Ok(vec!["impure:a-clone-of-the-mnemonic-prints-differently".into()]);
                    }
                    Ok(vec![hx(m.to_phrase().as_bytes()), m.mnemonic_length().to_string(), log_s])
                }
                Ok(Err(err)) => Err(e(err)),
                Err(p) => panic::resume_unwind(p),
            }
        }
        "hdk.derive" => {
            let seed = unhex(arg(1)?)?;
            let path = utf8(arg(2)?)?;
            let path = path.parse::<hdk::Path>().map_err(e)?;
            let key = hdk::derive(&seed, &path).map_err(e)?;
            Ok(vec![hx(key.secret())])
        }
        "path.parse" => {
            let s = utf8(arg(1)?)?;
            let path = s.parse::<hdk::Path>().map_err(e)?;
            let comps = path
                .components()
                .map(|c| match c {
                    hdk::Component::Hardened(v) => format!("h{v}"),
                    hdk::Component::Normal(v) => format!("n{v}"),
                })
                .collect::<Vec<_>>()
                .join(",");
            Ok(vec![hx(path.to_string().as_bytes()), if comps.is_empty() { "-".into() } else { comps }])
        }
        "path.for_index" => {
            let i: usize = arg(1)?.parse().map_err(e)?;
            let r = for_index(i)?;
            Ok(vec![hx(r.as_bytes())])
        }
        "acct.new" => {
            let b = unhex(arg(1)?)?;
            let key = PrivateKey::new(&b).map_err(e)?;
            Ok(vec![
                hx(key.secret()),
                hx(key.public().encode_uncompressed()),
                hx(key.address().to_string().as_bytes()),
            ])
        }
        "secp.affine" => {
            // the public key alone; the model side answers with the affine arithmetic that is proved to be the group law
            let b = unhex(arg(1)?)?;
            let key = PrivateKey::new(&b).map_err(e)?;
            Ok(vec![hx(key.public().encode_uncompressed())])
        }
        "acct.sign" => {
            let b = unhex(arg(1)?)?;
            let d = digest_from(&unhex(arg(2)?)?)?;
            let key = PrivateKey::new(&b).map_err(e)?;
            let s1 = key.try_sign(d).map_err(e)?;
            let s2 = key.try_sign(d).map_err(e)?;
            if s1 != s2 {
                return Ok(vec!["nondeterministic".into()]);
            }
            // "a pure function of (key, digest)": the panicking wrapper `sign` gives the same value, and neither is
            // influenced by what another key signed in between (same digest) or by what this key signed (other digest)
            let mut ob = [0u8; 32];
            ob[31] = if b.len() == 32 && b[31] == 1 && b[..31].iter().all(|x| *x == 0) { 2 } else { 1 };
            let other = PrivateKey::new(&ob).map_err(e)?;
            let mut d2b = [0u8; 32];
            d2b.copy_from_slice(&d[..]);
            d2b[0] ^= 0x80;
            let d2 = digest_from(&d2b)?;
            let a = key.sign(d);
            let o_try = other.try_sign(d).map_err(e)?;
            let o = other.sign(d);
            let _ = key.sign(d2);
            let _ = key.try_sign(d2);
            let c = key.sign(d);
            let c_try = key.try_sign(d).map_err(e)?;
            if a != s1 || c != s1 || c_try != s1 {
                return Ok(vec!["impure:result-changed-after-other-signatures".into()]);
            }
            if o != o_try {
                return Ok(vec!["impure:other-key-got-a-different-signature-after-this-one".into()]);
            }
            Ok(sig_fields(&s1))
        }
        "sig.parse" => {
            let s = utf8(arg(1)?)?;
            let sig = s.parse::<Signature>().map_err(e)?;
            Ok(sig_fields(&sig))
        }
        "sig.print" => {
            let sig = sig_from_args(arg(1)?, arg(2)?, arg(3)?)?;
            Ok(vec![hx(sig.to_string().as_bytes())])
        }
        "sig.v" => {
            // sig.v <parity> <chain-hex32 | none>
            let sig = sig_from_args(
                "0000000000000000000000000000000000000000000000000000000000000001",
                "0000000000000000000000000000000000000000000000000000000000000001",
                arg(1)?,
            )?;
            let chain = match arg(2)? {
                "none" => None,
                h => Some(u256_from(&unhex(h)?)?),
            };
            Ok(vec![u256_hex(sig.v(chain))])
        }
        "rlp.len" => {
            let n: usize = arg(1)?.parse().map_err(e)?;
            let off: u8 = arg(2)?.parse().map_err(e)?;
            Ok(vec![hx(hdwallet::transaction::verif_hooks::len(n, off))])
        }
        "rlp.bytes" => {
            let b = unhex(arg(1)?)?;
            Ok(vec![hx(hdwallet::transaction::verif_hooks::bytes(&b))])
        }
        "rlp.bytes_rep" => {
            // rlp.bytes_rep <len> <fill-byte-dec>: large inputs without large lines
            let n: usize = arg(1)?.parse().map_err(e)?;
            let f: u8 = arg(2)?.parse().map_err(e)?;
            let out = hdwallet::transaction::verif_hooks::bytes(&vec![f; n]);
            // report header (everything before the payload), payload length and a
            // check that the payload is intact
            let hl = out.len() - n;
            let intact = out[hl..].iter().all(|&x| x == f);
            Ok(vec![hx(&out[..hl]), n.to_string(), intact.to_string()])
        }
        "rlp.uint" => {
            let v = u256_from(&unhex(arg(1)?)?)?;
            Ok(vec![hx(hdwallet::transaction::verif_hooks::uint(v))])
        }
        "rlp.list" => {
            let items: Vec<Vec<u8>> = if arg(1)? == "-" {
                vec![]
            } else {
                arg(1)?.split(',').map(unhex).collect::<Result<_, _>>()?
            };
            let refs: Vec<&[u8]> = items.iter().map(|v| &v[..]).collect();
            Ok(vec![hx(hdwallet::transaction::verif_hooks::list(&refs))])
        }
        "tx.parse" => {
            let json = unhex(arg(1)?)?;
            let tx = serde_json::from_slice::<Transaction>(&json).map_err(e)?;
            Ok(tx_fields(&tx))
        }
        "tx.sign" => {
            // tx.sign <json> <key> -> digest, signed bytes, r s parity
            let json = unhex(arg(1)?)?;
            let key = PrivateKey::new(unhex(arg(2)?)?).map_err(|x| format!("harness: key: {x}"))?;
            let tx = serde_json::from_slice::<Transaction>(&json).map_err(e)?;
            let d = tx.signing_message();
            let sig = key.try_sign(d).map_err(e)?;
            let enc = tx.encode(sig);
            // the same transaction value asked again, with another signature in between
            let other = sig_from_args(
                "0000000000000000000000000000000000000000000000000000000000000007",
                "0000000000000000000000000000000000000000000000000000000000000009",
                if sig_fields(&sig)[2] == "1" { "0" } else { "1" },
            )?;
            let _ = tx.encode(other);
            if tx.signing_message()[..] != d[..] || tx.encode(sig) != enc {
                return Ok(vec!["impure:transaction-value-answers-differently-when-asked-again".into()]);
            }
            let mut out = vec![hx(&d[..]), hx(enc)];
            out.extend(sig_fields(&sig));
            Ok(out)
        }
        "tx.encode" => {
            // tx.encode <json> <r> <s> <parity>  (signature given) -> signing digest, bytes
            let json = unhex(arg(1)?)?;
            let tx = serde_json::from_slice::<Transaction>(&json).map_err(e)?;
            let sig = sig_from_args(arg(2)?, arg(3)?, arg(4)?)?;
            Ok(vec![hx(&tx.signing_message()[..]), hx(tx.encode(sig))])
        }
        "json.f64" => {
            let s = utf8(arg(1)?)?;
            let v = serde_json::from_str::<f64>(&s).map_err(e)?;
            Ok(vec![format!("{:016x}", v.to_bits())])
        }
        "td.hash" => {
            let json = unhex(arg(1)?)?;
            let td = serde_json::from_slice::<TypedData>(&json).map_err(e)?;
            let again = serde_json::from_slice::<TypedData>(&json).map_err(e)?;
            if td.signing_message()[..] != again.signing_message()[..]
                || td.message_hash()[..] != again.message_hash()[..]
                || td.domain_separator()[..] != again.domain_separator()[..]
                || td.signing_message()[..] != td.signing_message()[..]
            {
                return Ok(vec!["impure:typed-data-answers-differently-when-read-again".into()]);
            }
            Ok(vec![
                hx(&td.domain_separator()[..]),
                hx(&td.message_hash()[..]),
                hx(&td.signing_message()[..]),
            ])
        }
        "td.encode_type" => {
            let types = unhex(arg(1)?)?;
            let name = utf8(arg(2)?)?;
            let s = hdwallet::typeddata::verif_hooks::encode_type(&types, &name).map_err(e)?;
            Ok(vec![hx(s.as_bytes())])
        }
        "td.kind" => {
            let s = utf8(arg(1)?)?;
            Ok(vec![hx(hdwallet::typeddata::verif_hooks::member_kind_roundtrip(&s).as_bytes())])
        }
        "msg.hash" => {
            let b = unhex(arg(1)?)?;
            Ok(vec![hx(&EthereumMessage(b).signing_message()[..])])
        }
        "msg.hash_rep" => {
            let n: usize = arg(1)?.parse().map_err(e)?;
            let f: u8 = arg(2)?.parse().map_err(e)?;
            Ok(vec![hx(&EthereumMessage(vec![f; n]).signing_message()[..])])
        }
        "digest.parse" => {
            let s = utf8(arg(1)?)?;
            let d = s.parse::<Digest>().map_err(e)?;
            Ok(vec![hx(&d[..])])
        }
        op => Err(format!("harness: unknown op {op}")),
    }
}

/// `Path::for_index` returned `Path` before the C14 fix and returns `Result<Path>`
/// after it; accept both shapes so the harness builds against either tree.
fn for_index(i: usize) -> Result<String, String> {
    trait Shape {
        fn shape(self) -> Result<String, String>;
    }
    impl Shape for hdk::Path {
        fn shape(self) -> Result<String, String> {
            Ok(self.to_string())
        }
    }
    impl<E: std::fmt::Display> Shape for Result<hdk::Path, E> {
        fn shape(self) -> Result<String, String> {
            self.map(|p| p.to_string()).map_err(|x| x.to_string())
        }
    }
    hdk::Path::for_index(i).shape()
}

fn u256_from(b: &[u8]) -> Result<U256, String> {
    if b.len() > 32 {
        return Err("harness: u256 too long".into());
    }
    let mut a = [0u8; 32];
    a[32 - b.len()..].copy_from_slice(b);
    Ok(U256::from_be_bytes(a))
}

fn sig_from_args(r: &str, s: &str, parity: &str) -> Result<Signature, String> {
    let r = u256_from(&unhex(r)?)?;
    let s = u256_from(&unhex(s)?)?;
    let p: u8 = parity.parse().map_err(e)?;
    let sig = k256::ecdsa::Signature::from_scalars(r.to_be_bytes(), s.to_be_bytes())
        .map_err(|x| format!("harness: invalid scalars: {x}"))?;
    let rid = k256::ecdsa::RecoveryId::try_from(p).map_err(|x| format!("harness: parity: {x}"))?;
    Ok(Signature(sig, rid))
}

/// `seq <hex(line 1)> <hex(line 2)> …`: the lines are handled one after the other by this thread; the answer is
/// `ok <hex(answer 1)> <hex(answer 2)> …`.  Makes "what the process handled before" part of the input, so that a
/// history-dependent answer has a replayable witness.
fn run_seq(line: &str) -> String {
    let mut out = vec!["ok".to_string()];
    for h in line.split(' ').skip(1) {
        let sub = match unhex(h).ok().and_then(|b| String::from_utf8(b).ok()) {
            Some(s) => s,
            None => return "harness-error harness: bad seq element".into(),
        };
        if sub.starts_with("seq") {
            return "harness-error harness: nested seq".into();
        }
        out.push(hx(run_line(&sub).as_bytes()));
    }
    out.join(" ")
}

fn run_line(line: &str) -> String {
    if line.starts_with("seq ") {
        return run_seq(line);
    }
    let r = panic::catch_unwind(AssertUnwindSafe(|| run_op(line)));
    match r {
        Ok(Ok(fields)) => {
            if fields.is_empty() {
                "ok".to_string()
            } else {
                format!("ok {}", fields.join(" "))
            }
        }
        Ok(Err(msg)) => {
            if msg.starts_with("harness:") {
                format!("harness-error {msg}")
            } else {
                "err".to_string()
            }
        }
        Err(_) => "panic".to_string(),
    }
}

fn main() {
    panic::set_hook(Box::new(|_| {}));
    let args: Vec<String> = std::env::args().collect();
    let threads: usize = args
        .iter()
        .position(|a| a == "-j")
        .and_then(|i| args.get(i + 1))
        .and_then(|s| s.parse().ok())
        .unwrap_or(16);

    let stdin = io::stdin();
    let lines: Vec<String> = stdin.lock().lines().map(|l| l.unwrap()).collect();
    let n = lines.len();
    let lines = Arc::new(lines);
    let results: Arc<Mutex<Vec<Option<String>>>> = Arc::new(Mutex::new(vec![None; n]));
    let next = Arc::new(Mutex::new(0usize));
    // what each worker is busy with: (line index, since when); a line that takes longer than the limit is answered
    // `timeout`, its worker is abandoned (a thread cannot be stopped) and a fresh worker takes its place
    let limit = std::time::Duration::from_secs(
        std::env::var("HDW_LINE_TIMEOUT").ok().and_then(|s| s.parse().ok()).unwrap_or(15),
    );
    let busy: Arc<Mutex<Vec<Option<(usize, std::time::Instant)>>>> = Arc::new(Mutex::new(Vec::new()));
    let spawn_worker = {
        let lines = lines.clone();
        let results = results.clone();
        let next = next.clone();
        let busy = busy.clone();
        move || {
            let lines = lines.clone();
            let results = results.clone();
            let next = next.clone();
            let busy = busy.clone();
            let slot = {
                let mut b = busy.lock().unwrap();
                b.push(None);
                b.len() - 1
            };
            thread::Builder::new()
                .stack_size(64 << 20)
                .spawn(move || loop {
                    let i = {
                        let mut g = next.lock().unwrap();
                        // `usize::MAX` = stop handing out lines (a line timed out: the process is wound down and the
                        // caller starts a fresh one for the lines not yet run, so that abandoned workers do not pile up)
                        if *g == usize::MAX {
                            usize::MAX
                        } else {
                            let i = *g;
                            *g += 1;
                            i
                        }
                    };
                    if i >= lines.len() {
                        busy.lock().unwrap()[slot] = None;
                        break;
                    }
                    busy.lock().unwrap()[slot] = Some((i, std::time::Instant::now()));
                    let out = run_line(lines[i].trim_end());
                    let mut r = results.lock().unwrap();
                    if r[i].is_none() {
                        r[i] = Some(out);
                    }
                })
                .unwrap();
        }
    };
    for _ in 0..threads.max(1) {
        spawn_worker();
    }
    let mut winding_down = false;
    loop {
        thread::sleep(std::time::Duration::from_millis(20));
        if results.lock().unwrap().iter().all(|r| r.is_some()) {
            break;
        }
        if winding_down && busy.lock().unwrap().iter().all(|b| b.is_none()) {
            break;
        }
        let mut stuck = Vec::new();
        {
            let mut b = busy.lock().unwrap();
            for slot in b.iter_mut() {
                if let Some((i, since)) = *slot {
                    if since.elapsed() > limit && results.lock().unwrap()[i].is_none() {
                        stuck.push(i);
                        *slot = None;
                    }
                }
            }
        }
        for i in stuck {
            results.lock().unwrap()[i] = Some("timeout".to_string());
            *next.lock().unwrap() = usize::MAX;
            winding_down = true;
        }
    }
    let results: Vec<String> = results.lock().unwrap().iter().map(|r| r.clone().unwrap_or_else(|| "not-run".to_string())).collect();
    let stdout = io::stdout();
    let mut w = io::BufWriter::new(stdout.lock());
    for r in results.iter() {
        writeln!(w, "{r}").unwrap();
    }
    w.flush().unwrap();
    drop(w);
    // abandoned workers may still be spinning
    std::process::exit(0);
}
